package main

// R-SPAN-CONSECUTIVE — a path typestate over the script builder.
//
// The edits of a script are consecutive windows of the two inputs: each X span starts where the previous X span
// ended, each Y span where the previous Y span (or the implicit rhs window of an Emit) ended, the first ones start
// at 0 and the last ones end at len.  The builder keeps two cursors for that; the rule follows, on every acyclic
// path through the function, "how far each side has been accounted for" as a linear form over opaque values and
// compares it with the low bound of every span that is emitted:
//
//   - the gap (low − accounted) must be 0 as a linear form, or the conditions on the path itself must say that
//     it is ≤ 0 while the value's own history says it is ≥ 0 (a scan counter that started at the accounted position
//     and only moved forward: `lend := lpos; for … { lend++ }` under `!(lend > lpos)`);
//   - loops that contain emissions are cut at their header: the header φ that carries the side's position is the
//     invariant, the value flowing back into it on every back edge must again be what has been accounted for;
//   - at every return both sides must be accounted for up to their length (or a condition on the path says nothing
//     is left).
//
// Loop-header φs are opaque atoms (never resolved to their initial value), φs of plain merge blocks are resolved
// along the path, and a branch whose comparison is already decided by the path's facts (sign sets per linear form)
// is followed in that direction only — this is what makes `if a && b {…} else if a {…}` and "the copy test after the
// replace branch" come out without infeasible paths.

import (
	"fmt"
	"go/token"
	"go/types"
	"os"
	"sort"
	"strings"

	"golang.org/x/tools/go/ssa"
)

type signSet uint8 // bit 0: negative, bit 1: zero, bit 2: positive

func opSigns(op token.Token) signSet {
	switch op {
	case token.LSS:
		return 1
	case token.LEQ:
		return 3
	case token.EQL:
		return 2
	case token.GEQ:
		return 6
	case token.GTR:
		return 4
	case token.NEQ:
		return 5
	}
	return 7
}
func (s signSet) mirror() signSet { return (s&1)<<2 | s&2 | (s&4)>>2 }

type spanFact struct {
	d lform
	s signSet
}

func ruleSpanConsecutive(c *Ctx, fn *ssa.Function, lhs, rhs *ssa.Parameter) {
	c.rule("R-SPAN-CONSECUTIVE", 0, "on every path through the script builder each emitted span of an input starts exactly where that input was left (gap 0, or a gap the path's own conditions declare empty), loop back edges carry the accounted position, and returns leave nothing unaccounted")
	side := func(v ssa.Value) int {
		switch v {
		case ssa.Value(lhs):
			return 0
		case ssa.Value(rhs):
			return 1
		}
		return -1
	}
	sideName := []string{"lhs", "rhs"}
	isHeader := map[*ssa.BasicBlock]bool{}
	for _, b := range fn.Blocks {
		for _, p := range b.Preds {
			if b.Dominates(p) {
				isHeader[b] = true
			}
		}
	}
	// natural-loop membership: blocks dominated by header h that can reach a back edge of h
	inLoopOf := func(h, b *ssa.BasicBlock) bool {
		if !h.Dominates(b) {
			return false
		}
		seen := map[*ssa.BasicBlock]bool{}
		var w func(x *ssa.BasicBlock) bool
		w = func(x *ssa.BasicBlock) bool {
			if x == h {
				return true
			}
			if seen[x] || !h.Dominates(x) {
				return false
			}
			seen[x] = true
			for _, s := range x.Succs {
				if w(s) {
					return true
				}
			}
			return false
		}
		for _, s := range b.Succs {
			if w(s) {
				return true
			}
		}
		return false
	}
	lits := editLiterals(fn)
	byBlk := map[*ssa.BasicBlock][]editLit{}
	for _, l := range lits {
		if l.blk != nil {
			byBlk[l.blk] = append(byBlk[l.blk], l)
		}
	}
	if len(byBlk) == 0 {
		return
	}
	emitBlk := map[*ssa.BasicBlock]bool{}
	for b := range byBlk {
		emitBlk[b] = true
	}
	for _, b := range fn.Blocks {
		for _, in := range b.Instrs {
			if call, ok := in.(*ssa.Call); ok {
				if cal := staticCallee(&call.Call); cal != nil && origin(cal).Pkg == fn.Pkg && origin(cal).Blocks != nil {
					for _, a := range call.Call.Args {
						if ct, ok := a.(*ssa.ChangeType); ok {
							a = ct.X
						}
						if sl, ok := a.(*ssa.Slice); ok && side(sl.X) >= 0 {
							emitBlk[b] = true
						}
					}
				}
			}
		}
	}
	// headers whose loop contains emissions; emissions nested two loops deep are outside the rule
	emitHeader := map[*ssa.BasicBlock]bool{}
	for b := range emitBlk {
		depth := 0
		for h := range isHeader {
			if h == b || inLoopOf(h, b) {
				depth++
				emitHeader[h] = true
			}
		}
		if depth > 1 {
			dbg("span: literal at depth", depth)
			return
		}
	}
	// ---- linear forms under a path environment
	atomVal := map[string]ssa.Value{}
	var lf func(v ssa.Value, env map[ssa.Value]ssa.Value, d int) lform
	lf = func(v ssa.Value, env map[ssa.Value]ssa.Value, d int) lform {
		if d > 12 {
			return lunknown()
		}
		if e, ok := env[v]; ok {
			return lf(e, env, d+1)
		}
		switch x := v.(type) {
		case *ssa.Const:
			if k, ok := constInt(x); ok {
				return lconst(k)
			}
		case *ssa.BinOp:
			switch x.Op {
			case token.ADD:
				return lf(x.X, env, d+1).add(lf(x.Y, env, d+1), 1)
			case token.SUB:
				return lf(x.X, env, d+1).add(lf(x.Y, env, d+1), -1)
			}
		case *ssa.Call:
			if ln, ok := isBuiltinCall(x, "len"); ok {
				a := ln.Call.Args[0]
				if ct, ok := a.(*ssa.ChangeType); ok {
					a = ct.X
				}
				if s := side(a); s >= 0 {
					return latom("len(" + sideName[s] + ")")
				}
				// the length of a window is the difference of its bounds
				if sl, ok := a.(*ssa.Slice); ok {
					lo := lconst(0)
					if sl.Low != nil {
						lo = lf(sl.Low, env, d+1)
					}
					var hi lform
					if sl.High != nil {
						hi = lf(sl.High, env, d+1)
					} else if s := side(sl.X); s >= 0 {
						hi = latom("len(" + sideName[s] + ")")
					} else {
						return lunknown()
					}
					return hi.add(lo, -1)
				}
			} else if _, isB := x.Call.Value.(*ssa.Builtin); !isB {
				n := ksym(v) + "·" + v.Name()
				atomVal[n] = v
				return latom(n)
			}
		case *ssa.Convert:
			return lf(x.X, env, d+1)
		}
		n := ksym(v)
		if _, isPhi := v.(*ssa.Phi); isPhi {
			n = ksym(v) + "·" + v.Name()
		}
		atomVal[n] = v
		return latom(n)
	}
	// monotone lower bound: d = A + rest with A a loop-header φ whose entry value is I and whose back-edge values
	// are A + positive constant  ⇒  d ≥ I + rest
	nonneg := func(d lform, env map[ssa.Value]ssa.Value) bool {
		if d.unk {
			return false
		}
		if len(d.at) == 0 {
			return d.k >= 0
		}
		for n, co := range d.at {
			if co != 1 {
				continue
			}
			ph, ok := atomVal[n].(*ssa.Phi)
			if !ok || !isHeader[ph.Block()] {
				continue
			}
			var init lform
			haveInit, mono := false, true
			for i, e := range ph.Edges {
				if ph.Block().Dominates(ph.Block().Preds[i]) {
					bo, ok := e.(*ssa.BinOp)
					k, ok2 := int64(0), false
					if ok {
						k, ok2 = constInt(bo.Y)
					}
					if !ok || !ok2 || bo.X != ssa.Value(ph) || !((bo.Op == token.ADD && k > 0) || (bo.Op == token.SUB && k < 0)) {
						mono = false
					}
				} else {
					f := lf(e, env, 0)
					if haveInit && !f.eq(init) {
						mono = false
					}
					init, haveInit = f, true
				}
			}
			if !mono || !haveInit {
				continue
			}
			rest := d.add(latom(n), -1).add(init, 1)
			if !rest.unk && len(rest.at) == 0 && rest.k >= 0 {
				return true
			}
		}
		return false
	}
	// lockstep: two φs of one loop header that every back edge advances by the same constant differ by what their
	// initial values differ by; a form containing A − B is rewritten with initA − initB
	stepOf := func(ph *ssa.Phi) (init ssa.Value, step int64, ok bool) {
		if !isHeader[ph.Block()] {
			return nil, 0, false
		}
		have := false
		for i, e := range ph.Edges {
			if ph.Block().Dominates(ph.Block().Preds[i]) {
				bo, isBo := e.(*ssa.BinOp)
				if !isBo || bo.X != ssa.Value(ph) {
					return nil, 0, false
				}
				k, isK := constInt(bo.Y)
				if !isK || (bo.Op != token.ADD && bo.Op != token.SUB) {
					return nil, 0, false
				}
				if bo.Op == token.SUB {
					k = -k
				}
				if have && k != step {
					return nil, 0, false
				}
				step, have = k, true
			} else {
				if init != nil && init != e {
					return nil, 0, false
				}
				init = e
			}
		}
		return init, step, have && init != nil
	}
	lockstep := func(d lform, env map[ssa.Value]ssa.Value) lform {
		if d.unk {
			return d
		}
		for round := 0; round < 4; round++ {
			changed := false
			var names []string
			for n := range d.at {
				names = append(names, n)
			}
			sort.Strings(names)
			for _, a := range names {
				for _, b := range names {
					ca, cb := d.at[a], d.at[b]
					if a == b || ca == 0 || ca != -cb {
						continue
					}
					pa, ok1 := atomVal[a].(*ssa.Phi)
					pb, ok2 := atomVal[b].(*ssa.Phi)
					if !ok1 || !ok2 || pa.Block() != pb.Block() {
						continue
					}
					ia, sa, oka := stepOf(pa)
					ib, sb, okb := stepOf(pb)
					if !oka || !okb || sa != sb {
						continue
					}
					// d = ca·(A − B) + rest  →  ca·(initA − initB) + rest
					d = d.add(latom(a), -ca).add(latom(b), ca).add(lf(ia, env, 0).scale(ca), 1).add(lf(ib, env, 0).scale(ca), -1)
					changed = true
					break
				}
				if changed {
					break
				}
			}
			if !changed || d.unk {
				break
			}
		}
		return d
	}
	signsOf := func(facts []spanFact, d lform) signSet {
		s := signSet(7)
		if !d.unk && len(d.at) == 0 {
			switch {
			case d.k < 0:
				return 1
			case d.k == 0:
				return 2
			}
			return 4
		}
		for _, f := range facts {
			if f.d.eq(d) {
				s &= f.s
			} else if f.d.eq(d.scale(-1)) {
				s &= f.s.mirror()
			}
		}
		return s
	}
	// ---- which header φ carries each side's position: header φs that flow into a bound of a span of that side
	reaches := func(ph *ssa.Phi, s int) bool {
		seen := map[ssa.Value]bool{}
		var w func(v ssa.Value) bool
		w = func(v ssa.Value) bool {
			if seen[v] {
				return false
			}
			seen[v] = true
			refs := v.Referrers()
			if refs == nil {
				return false
			}
			for _, r := range *refs {
				switch x := r.(type) {
				case *ssa.Slice:
					if side(x.X) == s && (x.Low == v || x.High == v) {
						return true
					}
				case *ssa.BinOp:
					if (x.Op == token.ADD || x.Op == token.SUB) && w(x) {
						return true
					}
				case *ssa.Phi:
					if w(x) {
						return true
					}
				}
			}
			return false
		}
		return w(ph)
	}
	cands := map[*ssa.BasicBlock][2][]*ssa.Phi{}
	for h := range emitHeader {
		var cs [2][]*ssa.Phi
		for _, in := range h.Instrs {
			ph, ok := in.(*ssa.Phi)
			if !ok {
				break
			}
			if bt, ok := ph.Type().Underlying().(*types.Basic); !ok || bt.Info()&types.IsInteger == 0 {
				continue
			}
			for s := 0; s < 2; s++ {
				if reaches(ph, s) {
					cs[s] = append(cs[s], ph)
				}
			}
		}
		if len(cs[0]) == 0 || len(cs[1]) == 0 {
			dbg("span: no candidates", len(cs[0]), len(cs[1]))
			return // positions not kept in loop variables: outside the rule
		}
		cands[h] = cs
	}
	// ---- the walk, for one choice of position variables
	type verdict struct {
		bad  bool
		msg  string
		pos  token.Pos
		seen int
	}
	run := func(choice map[*ssa.BasicBlock][2]*ssa.Phi) (map[string]*verdict, bool) {
		res := map[string]*verdict{}
		note := func(key string, pos token.Pos, ok bool, msg string) {
			v := res[key]
			if v == nil {
				v = &verdict{pos: pos}
				res[key] = v
			}
			v.seen++
			if !ok && !v.bad {
				v.bad, v.msg = true, msg
			}
		}
		steps := 0
		aborted := false
		// gapOK: is the gap between the accounted position and `at` empty on this path?
		gapOK := func(at, cons lform, facts []spanFact, env map[ssa.Value]ssa.Value) (bool, string) {
			gap := at.add(cons, -1)
			if gap.unk {
				return false, "the position is not a linear form the rule can follow"
			}
			gap = lockstep(gap, env)
			if len(gap.at) == 0 && gap.k == 0 {
				return true, ""
			}
			// positions kept in memory (a table of offsets computed beforehand) are beyond this rule: what a slot
			// holds is not a value the path determines — not judged
			for n := range gap.at {
				switch x := atomVal[n].(type) {
				case *ssa.UnOp:
					if x.Op == token.MUL {
						if _, isIdx := x.X.(*ssa.IndexAddr); isIdx {
							return true, ""
						}
					}
				case *ssa.Index, *ssa.Lookup:
					return true, ""
				}
			}
			s := signsOf(facts, gap)
			if s == 2 {
				return true, "" // the path's conditions say the difference is exactly 0
			}
			if s&4 == 0 && nonneg(gap, env) {
				return true, ""
			}
			if os.Getenv("MDS_DEBUG") != "" {
				var fs []string
				for _, f := range facts {
					fs = append(fs, fmt.Sprintf("%s∈%03b", f.d, f.s))
				}
				dbg("span: gap", gap.String(), "signs", s, "facts", strings.Join(fs, " | "))
			}
			switch {
			case s == 1:
				return false, fmt.Sprintf("it lies %s before that position (the conditions on the path make the difference negative): elements are covered twice", gap.scale(-1))
			case s&4 == 0:
				return false, fmt.Sprintf("the path's conditions bound the difference %s by 0 from above only, and nothing bounds it from below", gap)
			}
			return false, fmt.Sprintf("the difference %s is not 0 and no condition on the path says the elements between are none", gap)
		}
		var walk func(b *ssa.BasicBlock, from *ssa.BasicBlock, cons [2]lform, env map[ssa.Value]ssa.Value, facts []spanFact, on map[*ssa.BasicBlock]bool)
		walk = func(b *ssa.BasicBlock, from *ssa.BasicBlock, cons [2]lform, env map[ssa.Value]ssa.Value, facts []spanFact, on map[*ssa.BasicBlock]bool) {
			steps++
			if steps > 200000 {
				aborted = true
				return
			}
			pi := -1
			for i, p := range b.Preds {
				if p == from {
					pi = i
				}
			}
			if on[b] {
				// back edge
				if ch, ok := choice[b]; ok && pi >= 0 {
					for s := 0; s < 2; s++ {
						in := lf(ch[s].Edges[pi], env, 0)
						ok, why := gapOK(in, cons[s], facts, env)
						note(fmt.Sprintf("%s:loop carries the position of %s", fnName(fn), sideName[s]), ch[s].Pos(), ok,
							fmt.Sprintf("on a path around the loop %s is accounted for up to %s but the next iteration starts from %s: %s", sideName[s], cons[s], in, why))
					}
				}
				return
			}
			if isHeader[b] {
				if ch, ok := choice[b]; ok && pi >= 0 {
					for s := 0; s < 2; s++ {
						in := lf(ch[s].Edges[pi], env, 0)
						ok, why := gapOK(in, cons[s], facts, env)
						note(fmt.Sprintf("%s:loop starts at the position of %s", fnName(fn), sideName[s]), ch[s].Pos(), ok,
							fmt.Sprintf("the loop is entered with %s accounted for up to %s but its position variable starts from %s: %s", sideName[s], cons[s], in, why))
						cons[s] = lf(ch[s], env, 0)
					}
				}
			} else if pi >= 0 {
				// resolve the φs of a plain merge block along this edge
				var ne map[ssa.Value]ssa.Value
				for _, in := range b.Instrs {
					ph, ok := in.(*ssa.Phi)
					if !ok {
						break
					}
					if ne == nil {
						ne = make(map[ssa.Value]ssa.Value, len(env)+2)
						for k, v := range env {
							ne[k] = v
						}
					}
					e := ph.Edges[pi]
					ne[ph] = e
				}
				if ne != nil {
					env = ne
				}
			}
			on[b] = true
			defer func() { on[b] = false }()
			// windows handed to a package-local helper are accounted for there (R-EDIT-SPAN follows them into the helper)
			for _, in := range b.Instrs {
				call, ok := in.(*ssa.Call)
				if !ok {
					continue
				}
				cal := staticCallee(&call.Call)
				if cal == nil || origin(cal).Pkg != fn.Pkg || origin(cal).Blocks == nil {
					continue
				}
				for _, a := range call.Call.Args {
					for {
						if ct, ok := a.(*ssa.ChangeType); ok {
							a = ct.X
							continue
						}
						break
					}
					sl, ok := a.(*ssa.Slice)
					if !ok || side(sl.X) < 0 {
						continue
					}
					s := side(sl.X)
					lo, hi := lconst(0), latom("len("+sideName[s]+")")
					if sl.Low != nil {
						lo = lf(sl.Low, env, 0)
					}
					if sl.High != nil {
						hi = lf(sl.High, env, 0)
					}
					ok2, why := gapOK(lo, cons[s], facts, env)
					note(fmt.Sprintf("%s:window of %s handed to %s starts where %s was left", fnName(fn), sideName[s], origin(cal).Name(), sideName[s]), call.Pos(), ok2,
						fmt.Sprintf("%s is accounted for up to %s when %s is given the window from %s: %s", sideName[s], cons[s], origin(cal).Name(), lo, why))
					cons[s] = hi
				}
			}
			// emissions in this block
			ls := byBlk[b]
			sort.Slice(ls, func(i, j int) bool { return ls[i].pos < ls[j].pos })
			for _, l := range ls {
				k, ok := int64(0), false
				if l.op != nil {
					k, ok = constInt(l.op)
				}
				if !ok {
					dbg("span: op not constant")
					aborted = true
					return
				}
				var span [2]*ssa.Slice
				for _, f := range []string{"X", "Y"} {
					v := l.set[f]
					if v == nil {
						continue
					}
					for {
						if ct, ok := v.(*ssa.ChangeType); ok {
							v = ct.X
							continue
						}
						break
					}
					sl, ok := v.(*ssa.Slice)
					if !ok || side(sl.X) < 0 {
						dbg("span: not a window", f, ksym(v))
						aborted = true // spans that are not windows of an input are R-EDIT-SPAN's business
						return
					}
					span[side(sl.X)] = sl
				}
				var width lform
				for s := 0; s < 2; s++ {
					sl := span[s]
					if sl == nil {
						continue
					}
					lo, hi := lconst(0), latom("len("+sideName[s]+")")
					if sl.Low != nil {
						lo = lf(sl.Low, env, 0)
					}
					if sl.High != nil {
						hi = lf(sl.High, env, 0)
					}
					ok, why := gapOK(lo, cons[s], facts, env)
					note(fmt.Sprintf("%s:%s span of %s starts where %s was left", fnName(fn), opNames[k], sideName[s], sideName[s]), l.pos, ok,
						fmt.Sprintf("%s is accounted for up to %s when the %s edit takes its span from %s: %s", sideName[s], cons[s], opNames[k], lo, why))
					cons[s] = hi
					width = hi.add(lo, -1)
				}
				if k == '=' && span[0] != nil && span[1] == nil {
					// kept elements advance the other side by as many
					cons[1] = cons[1].add(width, 1)
				}
			}
			last := b.Instrs[len(b.Instrs)-1]
			switch t := last.(type) {
			case *ssa.Return:
				for s := 0; s < 2; s++ {
					end := latom("len(" + sideName[s] + ")")
					gap := end.add(cons[s], -1)
					ok := !gap.unk && ((len(gap.at) == 0 && gap.k == 0) || signsOf(facts, gap)&4 == 0)
					note(fmt.Sprintf("%s:return with %s accounted for", fnName(fn), sideName[s]), t.Pos(), ok,
						fmt.Sprintf("a path returns with %s accounted for up to %s only and no condition on it says that is the end", sideName[s], cons[s]))
				}
				return
			case *ssa.If:
				var fd lform
				var fs signSet
				have := false
				cond := t.Cond
				neg := false
				for {
					if e, ok := env[cond]; ok {
						cond = e // a short-circuit && / || materialised as a φ of booleans
						continue
					}
					u, ok := cond.(*ssa.UnOp)
					if !ok || u.Op != token.NOT {
						break
					}
					cond, neg = u.X, !neg
				}
				if k, ok := cond.(*ssa.Const); ok && k.Value != nil && (k.Value.String() == "true" || k.Value.String() == "false") {
					truth := (k.Value.String() == "true") != neg
					if truth {
						walk(b.Succs[0], b, cons, env, facts, on)
					} else {
						walk(b.Succs[1], b, cons, env, facts, on)
					}
					return
				}
				if bo, ok := cond.(*ssa.BinOp); ok {
					if bt, ok := bo.X.Type().Underlying().(*types.Basic); ok && bt.Info()&types.IsInteger != 0 {
						d := lf(bo.X, env, 0).add(lf(bo.Y, env, 0), -1)
						if s := opSigns(bo.Op); !d.unk && s != 7 {
							fd, fs, have = d, s, true
							if neg {
								fs = 7 &^ fs
							}
						}
					}
				}
				dbg("span: if", b.Index, ksym(t.Cond), "have", have, fd.String())
				for si, sc := range b.Succs {
					nf := facts
					if have {
						want := fs
						if si == 1 {
							want = 7 &^ fs
						}
						cur := signsOf(facts, fd)
						if cur&want == 0 {
							continue // decided the other way by the path so far
						}
						nf = append(append([]spanFact{}, facts...), spanFact{fd, want})
					}
					walk(sc, b, cons, env, nf, on)
				}
				return
			}
			for _, sc := range b.Succs {
				walk(sc, b, cons, env, facts, on)
			}
		}
		walk(fn.Blocks[0], nil, [2]lform{lconst(0), lconst(0)}, map[ssa.Value]ssa.Value{}, nil, map[*ssa.BasicBlock]bool{})
		return res, !aborted
	}
	// ---- try every choice of position variables, keep the one with the fewest complaints
	var hs []*ssa.BasicBlock
	for h := range cands {
		hs = append(hs, h)
	}
	sort.Slice(hs, func(i, j int) bool { return hs[i].Index < hs[j].Index })
	var best map[string]*verdict
	bestBad := -1
	var rec func(i int, choice map[*ssa.BasicBlock][2]*ssa.Phi)
	rec = func(i int, choice map[*ssa.BasicBlock][2]*ssa.Phi) {
		if i == len(hs) {
			res, ok := run(choice)
			if !ok {
				return
			}
			n := 0
			for _, v := range res {
				if v.bad {
					n++
				}
			}
			if bestBad < 0 || n < bestBad {
				best, bestBad = res, n
			}
			return
		}
		cs := cands[hs[i]]
		for _, a := range cs[0] {
			for _, b := range cs[1] {
				if a == b {
					continue
				}
				choice[hs[i]] = [2]*ssa.Phi{a, b}
				rec(i+1, choice)
			}
		}
	}
	rec(0, map[*ssa.BasicBlock][2]*ssa.Phi{})
	if best == nil {
		dbg("span: every choice aborted")
		return
	}
	var keys []string
	for k := range best {
		keys = append(keys, k)
	}
	sort.Strings(keys)
	c.sawFn(fnName(fn))
	for _, k := range keys {
		v := best[k]
		c.judge(!v.bad, "R-SPAN-CONSECUTIVE", k, v.pos, fmt.Sprintf("gap empty on all %d path arrivals", v.seen), strings.TrimSpace(v.msg))
	}
}

func dbg(a ...any) {
	if os.Getenv("MDS_DEBUG") != "" {
		fmt.Fprintln(os.Stderr, a...)
	}
}
