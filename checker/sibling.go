package main

// Shape-based agreement of a cursor's predicate (HasNext) with its move (Next): instead of asking that both apply
// the same tests to the finder's results, enumerate what the finder can return — (is the node nil?, which side of
// zero is the offset on?) per return statement — and evaluate, for each such answer, what the predicate says and
// whether the move leaves the cursor with a non-empty path.  Nothing is executed: the returns are classified by the
// constants and branch facts at the return, the predicate and the move by following their branches on those facts.

import (
	"fmt"
	"go/token"
	"math"
	"sort"
	"strings"

	"golang.org/x/tools/go/ssa"
)

type sibShape struct {
	nilness int   // 1 nil, 2 non-nil
	lo, hi  int64 // the integer result lies in [lo, hi]
	pos     token.Pos
}

func (s sibShape) String() string {
	n := map[int]string{1: "nil", 2: "a node"}[s.nilness]
	b := func(x int64) string {
		switch x {
		case math.MinInt64:
			return "-∞"
		case math.MaxInt64:
			return "+∞"
		}
		return fmt.Sprint(x)
	}
	if s.lo == s.hi {
		return fmt.Sprintf("(%s, %d)", n, s.lo)
	}
	return fmt.Sprintf("(%s, %s..%s)", n, b(s.lo), b(s.hi))
}

// sibFinderShapes: the answers the finder can give; ok=false when a return cannot be classified.
func (m *streeModel) sibFinderShapes(fn *ssa.Function) ([]sibShape, bool) {
	if fn == nil || fn.Signature.Results().Len() != 2 || len(fn.Params) == 0 {
		return nil, false
	}
	cur := ssa.Value(fn.Params[0])
	isPathLen := func(v ssa.Value) bool {
		ln, ok := isBuiltinCall(v, "len")
		if !ok {
			return false
		}
		base, f := loadedField(ln.Call.Args[0])
		return f != nil && sameField(f, m.pathF) && base == cur
	}
	// v = len(path) + k
	var lenPlus func(v ssa.Value, d int) (int64, bool)
	lenPlus = func(v ssa.Value, d int) (int64, bool) {
		if isPathLen(v) {
			return 0, true
		}
		if bo, ok := v.(*ssa.BinOp); ok && d < 4 && (bo.Op == token.ADD || bo.Op == token.SUB) {
			if k, ok := constInt(bo.Y); ok {
				if b, ok := lenPlus(bo.X, d+1); ok {
					if bo.Op == token.SUB {
						k = -k
					}
					return b + k, true
				}
			}
		}
		return 0, false
	}
	// the path is indexed at len−1 before anything else: it has at least one element on every return
	nonEmpty := func(ret *ssa.Return) bool {
		ok := false
		allInstrs(fn, func(in ssa.Instruction) {
			ia, isIA := in.(*ssa.IndexAddr)
			if !isIA || !dominatesInstr(ia, ret) {
				return
			}
			if base, f := loadedField(ia.X); f == nil || !sameField(f, m.pathF) || base != cur {
				return
			}
			if k, okA := lenPlus(ia.Index, 0); okA && k == -1 {
				ok = true
			}
		})
		return ok
	}
	var out []sibShape
	good := true
	allInstrs(fn, func(in ssa.Instruction) {
		ret, ok := in.(*ssa.Return)
		if !ok || len(ret.Results) != 2 {
			return
		}
		sh := sibShape{pos: ret.Pos(), lo: math.MinInt64, hi: math.MaxInt64}
		// the node
		var nils []int
		switch r0 := ret.Results[0].(type) {
		case *ssa.Const:
			if r0.Value == nil {
				nils = []int{1}
			}
		default:
			for _, f := range factsAt(ret.Block()) {
				for _, g := range expandFact(f) {
					if bo, ok := g.Cond.(*ssa.BinOp); ok && bo.X == ret.Results[0] && isNilConst(bo.Y) {
						if (bo.Op == token.NEQ) == g.Truth {
							nils = []int{2}
						} else {
							nils = []int{1}
						}
					}
				}
			}
			if nils == nil {
				nils = []int{1, 2}
			}
		}
		if nils == nil {
			good = false
			return
		}
		// the offset: constant, len(path) ± k, or v ± k with a dominating bound on v
		r1 := ret.Results[1]
		switch {
		case func() bool { _, ok := constInt(r1); return ok }():
			k, _ := constInt(r1)
			sh.lo, sh.hi = k, k
		default:
			if k, ok := lenPlus(r1, 0); ok && nonEmpty(ret) {
				sh.lo = 1 + k
			} else {
				base, k := r1, int64(0)
				if bo, ok := r1.(*ssa.BinOp); ok && (bo.Op == token.ADD || bo.Op == token.SUB) {
					if c, ok := constInt(bo.Y); ok {
						base, k = bo.X, c
						if bo.Op == token.SUB {
							k = -c
						}
					}
				}
				for _, cm := range cmpsAt(ret.Block()) {
					x, y, op := cm.X, cm.Y, cm.Op
					if y == base {
						x, y, op = y, x, flipOp(op)
					}
					c, isK := constInt(y)
					if x != base || !isK {
						continue
					}
					switch op {
					case token.GEQ:
						sh.lo = max(sh.lo, c+k)
					case token.GTR:
						sh.lo = max(sh.lo, c+1+k)
					case token.LEQ:
						sh.hi = min(sh.hi, c+k)
					case token.LSS:
						sh.hi = min(sh.hi, c-1+k)
					case token.EQL:
						sh.lo, sh.hi = c+k, c+k
					}
				}
			}
		}
		for _, n := range nils {
			s := sh
			s.nilness = n
			out = append(out, s)
		}
	})
	return out, good && len(out) > 0
}

// sibDecide: the truth of `v op const` for v in [lo, hi]; ok=false when both outcomes are possible.
func sibDecide(lo, hi int64, op token.Token, k int64) (truth, ok bool) {
	at := func(v int64) bool {
		switch op {
		case token.LSS:
			return v < k
		case token.LEQ:
			return v <= k
		case token.GTR:
			return v > k
		case token.GEQ:
			return v >= k
		case token.EQL:
			return v == k
		case token.NEQ:
			return v != k
		}
		return false
	}
	a, b := at(lo), at(hi)
	if a != b {
		return false, false
	}
	// equality tests are not monotone
	if (op == token.EQL || op == token.NEQ) && lo != hi && lo <= k && k <= hi {
		return false, false
	}
	return a, true
}

// sibWalk follows fn from the finder's call under one answer of the finder.  It returns the set of outcomes over
// all paths: for a predicate the returned booleans ("true"/"false"), for a move what is left in the path
// ("empty"/"nonempty"); "?" when something on the way cannot be decided.
func (m *streeModel) sibWalk(fn *ssa.Function, finder *ssa.Call, sh sibShape, predicate bool) map[string]bool {
	out := map[string]bool{}
	var r0, r1 ssa.Value
	for _, r := range referrersOf(finder) {
		if ex, ok := r.(*ssa.Extract); ok {
			if ex.Index == 0 {
				r0 = ex
			} else {
				r1 = ex
			}
		}
	}
	cur := ssa.Value(fn.Params[0])
	// r1 ± k
	offOf := func(v ssa.Value) (int64, bool) {
		if v == r1 && r1 != nil {
			return 0, true
		}
		if bo, ok := v.(*ssa.BinOp); ok && bo.X == r1 && r1 != nil {
			if k, ok := constInt(bo.Y); ok {
				switch bo.Op {
				case token.ADD:
					return k, true
				case token.SUB:
					return -k, true
				}
			}
		}
		return 0, false
	}
	shift := func(x, k int64) int64 {
		if x == math.MinInt64 || x == math.MaxInt64 {
			return x
		}
		return x + k
	}
	type state struct {
		b, pred *ssa.BasicBlock
		path    string          // "orig" (untouched: non-empty), "empty", "nonempty"
		fresh   bool            // the loop variable derived from r0 has not been advanced yet
	}
	seen := map[string]bool{}
	var walk func(st state, env map[ssa.Value]int) // env: booleans and nil-ness decided so far (1 true/nil, 2 false/non-nil)
	evalBool := func(v ssa.Value, st state, env map[ssa.Value]int) int {
		neg := false
		for {
			u, ok := v.(*ssa.UnOp)
			if !ok || u.Op != token.NOT {
				break
			}
			v, neg = u.X, !neg
		}
		res := 0
		if k, ok := v.(*ssa.Const); ok && k.Value != nil {
			switch k.Value.String() {
			case "true":
				res = 1
			case "false":
				res = 2
			}
		} else if e, ok := env[v]; ok {
			res = e
		} else if bo, ok := v.(*ssa.BinOp); ok {
			x, y, op := bo.X, bo.Y, bo.Op
			if _, isK := x.(*ssa.Const); isK {
				x, y, op = y, x, flipOp(op)
			}
			switch {
			case isNilConst(y) && (op == token.EQL || op == token.NEQ):
				n := 0
				if x == r0 && r0 != nil {
					n = sh.nilness
				} else if e, ok := env[x]; ok {
					n = e
				}
				if n != 0 {
					if (n == 1) == (op == token.EQL) {
						res = 1
					} else {
						res = 2
					}
				}
			default:
				if k, ok := constInt(y); ok {
					if d, ok := offOf(x); ok {
						if t, ok := sibDecide(shift(sh.lo, d), shift(sh.hi, d), op, k); ok {
							res = 2
							if t {
								res = 1
							}
						}
					}
				}
			}
		}
		if res != 0 && neg {
			res = 3 - res
		}
		return res
	}
	walk = func(st state, env map[ssa.Value]int) {
		var es []string
		for k, v := range env {
			es = append(es, fmt.Sprintf("%s=%d", k.Name(), v))
		}
		sort.Strings(es)
		key := fmt.Sprintf("%d|%p|%s|%s", st.b.Index, st.pred, st.path, strings.Join(es, ","))
		if seen[key] {
			return
		}
		seen[key] = true
		// φs
		env2 := map[ssa.Value]int{}
		for k, v := range env {
			env2[k] = v
		}
		env = env2
		for _, in := range st.b.Instrs {
			ph, ok := in.(*ssa.Phi)
			if !ok {
				break
			}
			for i, p := range st.b.Preds {
				if p != st.pred {
					continue
				}
				e := ph.Edges[i]
				switch {
				case e == r0 && r0 != nil:
					env[ph] = sh.nilness
				case isNilConst(e):
					env[ph] = 1
				default:
					if v := evalBool(e, st, env); v != 0 {
						env[ph] = v
					} else if ev, ok := env[e]; ok {
						env[ph] = ev
					} else {
						delete(env, ph)
					}
				}
			}
		}
		for _, in := range st.b.Instrs {
			switch x := in.(type) {
			case *ssa.Store:
				fa, ok := x.Addr.(*ssa.FieldAddr)
				if !ok {
					continue
				}
				if _, f := fieldVarOf(fa); !sameField(f, m.pathF) || fa.X != cur {
					continue
				}
				switch v := x.Val.(type) {
				case *ssa.Const:
					st.path = "empty"
				case *ssa.Slice:
					base, f := loadedField(v.X)
					if f == nil || !sameField(f, m.pathF) || base != cur || v.Low != nil || v.High == nil {
						st.path = "?"
						break
					}
					d, ok := offOf(v.High)
					if !ok {
						st.path = "?"
						break
					}
					lo, hi := shift(sh.lo, d), shift(sh.hi, d)
					switch {
					case lo >= 1 && st.path != "empty":
						st.path = "nonempty"
					case lo == 0 && hi == 0:
						st.path = "empty"
					default:
						st.path = "?"
					}
				case *ssa.Call:
					if _, ok := isBuiltinCall(v, "append"); ok {
						st.path = "nonempty"
					} else {
						st.path = "?"
					}
				default:
					st.path = "?"
				}
			case *ssa.Return:
				if predicate {
					if len(x.Results) != 1 {
						out["?"] = true
						return
					}
					switch evalBool(x.Results[0], st, env) {
					case 1:
						out["true"] = true
					case 2:
						out["false"] = true
					default:
						out["?"] = true
					}
				} else {
					switch st.path {
					case "orig", "nonempty":
						out["nonempty"] = true
					default:
						out[st.path] = true
					}
				}
				return
			case *ssa.If:
				v := evalBool(x.Cond, st, env)
				for i, sc := range st.b.Succs {
					if (v == 1 && i == 1) || (v == 2 && i == 0) {
						continue
					}
					walk(state{sc, st.b, st.path, st.fresh}, env)
				}
				return
			case *ssa.Jump:
				walk(state{st.b.Succs[0], st.b, st.path, st.fresh}, env)
				return
			case *ssa.Panic:
				return
			}
		}
	}
	// start right after the finder's call: walk its block from the call on
	start := state{finder.Block(), nil, "orig", true}
	env := map[ssa.Value]int{}
	// stores before the call in the same block do not matter (the path is valid when the finder is consulted)
	walk(start, env)
	return out
}

func sibKeys(m map[string]bool) string {
	var ks []string
	for k := range m {
		ks = append(ks, k)
	}
	sort.Strings(ks)
	return strings.Join(ks, "/")
}

// sibAgree: verdict of the shape-based comparison: 1 agree on every answer, 2 a definite disagreement (why says
// which), 0 cannot tell.
func (m *streeModel) sibAgree(has, mv, finderFn *ssa.Function, hasCall, mvCall *ssa.Call, hasName, mvName string) (int, string) {
	shapes, ok := m.sibFinderShapes(finderFn)
	if !ok {
		return 0, ""
	}
	n := 0
	for _, sh := range shapes {
		p := m.sibWalk(has, hasCall, sh, true)
		q := m.sibWalk(mv, mvCall, sh, false)
		if p["?"] || q["?"] || len(p) != 1 || len(q) != 1 {
			return 0, ""
		}
		says, left := p["true"], q["nonempty"]
		if says != left {
			what := "leaves the cursor invalid"
			if left {
				what = "moves to an element"
			}
			return 2, fmt.Sprintf("when %s answers %s, %s says %v but %s %s", finderFn.Name(), sh, hasName, says, mvName, what)
		}
		n++
	}
	return 1, fmt.Sprintf("%d answers of %s", n, finderFn.Name())
}
