package main

// Obligations, evidence, known findings, floors.

import (
	"encoding/json"
	"fmt"
	"go/token"
	"os"
	"path/filepath"
	"sort"
	"strings"
)

type Oblig struct {
	Rule      string `json:"rule"`
	Construct string `json:"construct"`
	Pos       string `json:"pos"`
	Verdict   string `json:"verdict"` // ok | violated | undecided
	Msg       string `json:"msg,omitempty"`
	Known     bool   `json:"known_finding,omitempty"`
	Canary    bool   `json:"canary,omitempty"`
	Config    string `json:"config,omitempty"`
}

func (o Oblig) key() string { return o.Rule + "/" + o.Construct }

type RuleInfo struct {
	ID    string
	Doc   string
	Floor int // minimum number of non-canary obligations confirmed by hand
}

type Ctx struct {
	P           *Prog
	Prop        string
	Tier        string
	Level       string
	Obligs      []Oblig
	Rules       []RuleInfo
	Assumptions []string
	Extra       map[string]any
	Explanation string
	FuncsSeen   map[string]bool
	// canary expectations: rule -> constructs that MUST be violated / MUST be ok
	CanaryBad map[string]bool
	CanaryOK  map[string]bool
	seq       map[string]int
}

func newCtx(P *Prog, prop, tier string) *Ctx {
	return &Ctx{P: P, Prop: prop, Tier: tier, Extra: map[string]any{}, FuncsSeen: map[string]bool{},
		CanaryBad: map[string]bool{}, CanaryOK: map[string]bool{}, seq: map[string]int{}}
}

func (c *Ctx) rule(id string, floor int, doc string) {
	for i := range c.Rules {
		if c.Rules[i].ID == id {
			return
		}
	}
	c.Rules = append(c.Rules, RuleInfo{ID: id, Doc: doc, Floor: floor})
}

func (c *Ctx) assume(s string) {
	for _, a := range c.Assumptions {
		if a == s {
			return
		}
	}
	c.Assumptions = append(c.Assumptions, s)
}

// uniq makes a construct key unique by appending an ordinal for repeats.
func (c *Ctx) uniq(rule, construct string) string {
	k := rule + "/" + construct
	c.seq[k]++
	if n := c.seq[k]; n > 1 {
		return fmt.Sprintf("%s#%d", construct, n)
	}
	return construct
}

func (c *Ctx) add(rule, construct string, pos token.Pos, verdict, msg string) {
	c.Obligs = append(c.Obligs, Oblig{Rule: rule, Construct: c.uniq(rule, construct), Pos: c.P.pos(pos),
		Verdict: verdict, Msg: msg, Config: c.P.Config})
}
func (c *Ctx) ok(rule, construct string, pos token.Pos, msg string) {
	c.add(rule, construct, pos, "ok", msg)
}
func (c *Ctx) bad(rule, construct string, pos token.Pos, msg string) {
	c.add(rule, construct, pos, "violated", msg)
}
func (c *Ctx) undecided(rule, construct string, pos token.Pos, msg string) {
	c.add(rule, construct, pos, "undecided", msg)
}

// judge adds ok if cond else violated.
func (c *Ctx) judge(cond bool, rule, construct string, pos token.Pos, okmsg, badmsg string) {
	if cond {
		c.ok(rule, construct, pos, okmsg)
	} else {
		c.bad(rule, construct, pos, badmsg)
	}
}

func (c *Ctx) sawFn(name string) { c.FuncsSeen[name] = true }

// ---------------------------------------------------------------------------

type KnownFinding struct {
	Property  string `json:"property"`
	Rule      string `json:"rule"`
	Construct string `json:"construct"`
	What      string `json:"what"`
	Status    string `json:"status"` // known | fixed
	Commit    string `json:"commit,omitempty"`
}

func loadKnown(verifDir string) ([]KnownFinding, error) {
	b, err := os.ReadFile(filepath.Join(verifDir, "known_findings.json"))
	if err != nil {
		if os.IsNotExist(err) {
			return nil, nil
		}
		return nil, err
	}
	var out struct {
		Findings []KnownFinding `json:"findings"`
	}
	if err := json.Unmarshal(b, &out); err != nil {
		return nil, fmt.Errorf("known_findings.json: %w", err)
	}
	return out.Findings, nil
}

// finish applies canary expectations, floors and known findings; writes
// evidence; returns exit code.
func (c *Ctx) finish(verifDir string, wall float64, seed int64, evidencePath string, quiet bool) int {
	known, kerr := loadKnown(verifDir)
	var problems []Oblig // unlisted violations / undecided / meta failures
	meta := func(rule, construct, msg string) {
		problems = append(problems, Oblig{Rule: rule, Construct: construct, Pos: "-", Verdict: "violated", Msg: msg, Config: c.P.Config})
	}
	if kerr != nil {
		meta("META", "known_findings.json", kerr.Error())
	}
	knownSet := map[string]KnownFinding{}
	for _, k := range known {
		if k.Property == c.Prop && k.Status == "known" {
			knownSet[k.Rule+"/"+k.Construct] = k
		}
	}
	// mark canaries
	canarySeenBad := map[string]bool{}
	for i := range c.Obligs {
		o := &c.Obligs[i]
		k := o.key()
		if c.CanaryBad[k] || c.CanaryOK[k] || strings.Contains(o.Construct, "verifCanary") || strings.Contains(o.Construct, "verifTwin") {
			o.Canary = true
		}
	}
	type agg struct{ Sites, OK, Violated, Undecided, Known, Canary int }
	per := map[string]*agg{}
	for _, r := range c.Rules {
		per[r.ID] = &agg{}
	}
	knownPrinted := map[string]bool{}
	for i := range c.Obligs {
		o := &c.Obligs[i]
		a := per[o.Rule]
		if a == nil {
			a = &agg{}
			per[o.Rule] = a
		}
		if o.Canary {
			a.Canary++
			k := o.key()
			switch {
			case c.CanaryBad[k]:
				if o.Verdict == "ok" {
					meta("CANARY", k, "seeded canary violation was NOT reported: the rule is blind")
				} else {
					canarySeenBad[k] = true
				}
			case c.CanaryOK[k]:
				if o.Verdict != "ok" {
					meta("CANARY", k, "conforming canary twin was reported ("+o.Verdict+": "+o.Msg+"): the rule is over-strict")
				}
			default:
				// canary function obligation not in any expectation list: ignore
			}
			continue
		}
		a.Sites++
		switch o.Verdict {
		case "ok":
			a.OK++
		case "violated", "undecided":
			if kf, ok := knownSet[o.key()]; ok && o.Verdict == "violated" {
				o.Known = true
				a.Known++
				if !knownPrinted[o.key()] {
					knownPrinted[o.key()] = true
					if !quiet {
						fmt.Printf("KNOWN-FINDING: property=%s %s [%s at %s]\n", c.Prop, kf.What, o.key(), o.Pos)
					}
				}
				continue
			}
			if o.Verdict == "violated" {
				a.Violated++
			} else {
				a.Undecided++
			}
			problems = append(problems, *o)
		}
	}
	for k := range c.CanaryBad {
		if !canarySeenBad[k] {
			meta("CANARY", k, "expected canary obligation was not produced at all")
		}
	}
	if len(problems) == 0 {
		// vacuity guard; only meaningful when nothing else is wrong (a broken
		// anchor or an undecided site already explains a low count)
		for _, r := range c.Rules {
			if a := per[r.ID]; a.Sites < r.Floor {
				meta("FLOOR", r.ID, fmt.Sprintf("rule matched %d sites, fewer than the floor of %d (vacuity guard: the rule no longer finds the constructs it was confirmed on)", a.Sites, r.Floor))
			}
		}
	}
	sort.SliceStable(problems, func(i, j int) bool { return problems[i].Pos < problems[j].Pos })

	// evidence
	total, discharged := 0, 0
	distinct := map[string]bool{}
	var samples []any
	for _, o := range c.Obligs {
		if o.Canary {
			continue
		}
		total++
		if o.Verdict == "ok" {
			discharged++
		}
		distinct[o.key()] = true
	}
	// samples: up to 3 per rule, plus all problems
	cnt := map[string]int{}
	for _, o := range c.Obligs {
		if o.Canary {
			continue
		}
		if cnt[o.Rule] < 3 || o.Verdict != "ok" {
			cnt[o.Rule]++
			samples = append(samples, o)
		}
	}
	perOut := map[string]any{}
	ruleDocs := []string{}
	for _, r := range c.Rules {
		a := per[r.ID]
		perOut[r.ID] = map[string]any{"sites": a.Sites, "floor": r.Floor, "ok": a.OK, "violated": a.Violated,
			"undecided": a.Undecided, "known": a.Known, "canary_obligations": a.Canary, "doc": r.Doc}
		ruleDocs = append(ruleDocs, r.ID+": "+r.Doc)
	}
	fnames := make([]string, 0, len(c.FuncsSeen))
	for f := range c.FuncsSeen {
		fnames = append(fnames, f)
	}
	sort.Strings(fnames)
	cov := map[string]any{
		"explanation":         c.fullExplanation(),
		"obligations":         total,
		"discharged":          discharged,
		"evaluations":         total,
		"distinct_nontrivial": len(distinct),
		"rule": "obligations are enumerated by the rules below over the type-checked go/ssa form of /repo's current working tree; " +
			"one obligation per (rule, construct); distinct = distinct (rule, construct) keys, all non-trivial (each names a real program construct). " +
			strings.Join(ruleDocs, " | "),
		"samples":            samples,
		"per_rule":           perOut,
		"packages":           len(c.P.Pkgs),
		"functions_in_repo":  len(c.P.Funcs),
		"functions_analysed": fnames,
		"config":             c.P.Config,
		"canaries": map[string]any{"seeded_expected": len(c.CanaryBad), "seeded_reported": len(canarySeenBad),
			"twins_expected_silent": len(c.CanaryOK)},
	}
	for k, v := range c.Extra {
		if !strings.HasPrefix(k, "_") {
			cov[k] = v
		}
	}
	if c.Level == "proof" {
		cov["checker_cmd"] = fmt.Sprintf("bin/mdscheck -prop %s -tier %s", c.Prop, c.Tier)
		if _, ok := cov["trusted_base"]; !ok {
			cov["trusted_base"] = []string{"go/packages + go/types + go/ssa (golang.org/x/tools v0.29.0)", "the rule implementations in /verif/checker", "sync.Mutex semantics"}
		}
	}
	c.assume("go/packages, go/types and go/ssa (golang.org/x/tools v0.29.0) represent /repo's source faithfully; non-test files of the default build configuration are what is analysed")
	ev := map[string]any{
		"property_id": c.Prop,
		"tier":        c.Tier,
		"seed":        seed,
		"level":       c.Level,
		"coverage":    cov,
		"assumptions": c.Assumptions,
		"wall_s":      wall,
		"violations":  len(problems),
	}
	if evidencePath != "" {
		os.MkdirAll(filepath.Dir(evidencePath), 0o755)
		b, _ := json.MarshalIndent(ev, "", " ")
		if err := os.WriteFile(evidencePath, append(b, '\n'), 0o644); err != nil {
			fmt.Fprintf(os.Stderr, "write evidence: %v\n", err)
			return 2
		}
	}
	if len(problems) > 0 {
		vpath := strings.TrimSuffix(evidencePath, ".json") + ".violations.json"
		if evidencePath == "" {
			vpath = filepath.Join(os.TempDir(), c.Prop+".violations.json")
		}
		b, _ := json.MarshalIndent(problems, "", " ")
		os.WriteFile(vpath, append(b, '\n'), 0o644)
		if !quiet {
			for _, p := range problems {
				fmt.Printf("%s: [%s] %s: %s (%s)\n", p.Pos, p.Rule, p.Construct, p.Msg, p.Verdict)
			}
		}
		fmt.Printf("VIOLATION property=%s replay=%s\n", c.Prop, vpath)
		return 1
	}
	if evidencePath != "" {
		os.Remove(strings.TrimSuffix(evidencePath, ".json") + ".violations.json")
	}
	if !quiet {
		fmt.Printf("OK property=%s tier=%s obligations=%d discharged=%d rules=%d config=%s\n", c.Prop, c.Tier, total, discharged, len(c.Rules), c.P.Config)
	}
	return 0
}

// fullExplanation appends the statements of the rules the hand-written explanation does not name.
func (c *Ctx) fullExplanation() string {
	var extra []string
	for _, r := range c.Rules {
		if !strings.Contains(c.Explanation, r.ID) {
			extra = append(extra, "("+r.ID+") "+r.Doc)
		}
	}
	if len(extra) == 0 {
		return c.Explanation
	}
	sort.Strings(extra)
	return c.Explanation + " Further rules decided by this check: " + strings.Join(extra, "; ") + "."
}
