package main

// C19 — distinct.Counter: R-BUF-BOUND (one-variable abstract interpretation),
// R-P-MONOTONE, R-EXACT-REGIME.

import (
	"os"
	"fmt"
	"go/constant"
	"go/token"
	"go/types"
	"math"
	"sort"
	"strings"

	"golang.org/x/tools/go/ssa"
)

func init() {
	register(&propDef{ID: "C19", Level: "other", Run: runC19})
}

const (
	negInf = math.MinInt32
	posInf = math.MaxInt32
)

type ival struct {
	lo, hi int
	bot    bool
	mem    int8 // whether the tracked element (the method's own argument) is in the buffer: 0 unknown, 1 yes, 2 no
}

func (a ival) join(b ival) ival {
	if a.bot {
		return b
	}
	if b.bot {
		return a
	}
	r := a
	if b.lo < r.lo {
		r.lo = b.lo
	}
	if b.hi > r.hi {
		r.hi = b.hi
	}
	if a.mem != b.mem {
		r.mem = 0
	}
	return r
}

func addSat(x, d int) int {
	if x == negInf || x == posInf {
		return x
	}
	return x + d
}

func (a ival) String() string {
	if a.bot {
		return "⊥"
	}
	f := func(x int) string {
		switch x {
		case negInf:
			return "-∞"
		case posInf:
			return "+∞"
		}
		return fmt.Sprint(x)
	}
	return "[" + f(a.lo) + "," + f(a.hi) + "]"
}

// setEffect classifies a mapset.Set method by scanning its body.
type setEffect struct{ grows, shrinks, empties, readsLen bool }

func classifySetMethod(fn *ssa.Function) setEffect {
	var e setEffect
	fn = origin(fn)
	if fn == nil || fn.Blocks == nil {
		return e
	}
	oc := newOrig(fn)
	var fromRecvD func(v ssa.Value, d int) bool
	fromRecvD = func(v ssa.Value, d int) bool {
		if d > 4 {
			return false
		}
		o := oc.of(v)
		if o.hasParam(0) {
			return true
		}
		// pointer receiver: load of *s
		if a, ok := loadAddr(v); ok && len(fn.Params) > 0 && a == ssa.Value(fn.Params[0]) {
			return true
		}
		// a local that holds the receiver's map: a value stored into *s, or a φ of such values
		// (m := *s; if m == nil { m = make(...); *s = m })
		if len(fn.Params) > 0 {
			for _, r := range referrersOf(v) {
				if st, ok := r.(*ssa.Store); ok && st.Val == v && st.Addr == ssa.Value(fn.Params[0]) {
					return true
				}
			}
		}
		if ph, ok := v.(*ssa.Phi); ok {
			for _, e := range ph.Edges {
				if fromRecvD(e, d+1) {
					return true
				}
			}
		}
		// what a helper handed the receiver gives back when it gives back the receiver's map (s.ensure(n), which
		// returns *s): every return of the callee is its first parameter or a load through it
		if call, ok := v.(*ssa.Call); ok && len(call.Call.Args) > 0 && (fromRecvD(call.Call.Args[0], d+1) || (len(fn.Params) > 0 && call.Call.Args[0] == ssa.Value(fn.Params[0]))) {
			if cal := origin(staticCallee(&call.Call)); cal != nil && cal.Blocks != nil && len(cal.Params) > 0 {
				n, all := 0, true
				allInstrs(cal, func(in ssa.Instruction) {
					if r, ok := in.(*ssa.Return); ok && len(r.Results) == 1 {
						n++
						a, isLd := loadAddr(r.Results[0])
						if !(r.Results[0] == ssa.Value(cal.Params[0]) || (isLd && a == ssa.Value(cal.Params[0]))) {
							all = false
						}
					}
				})
				if n > 0 && all {
					return true
				}
			}
		}
		return false
	}
	// inside the body of a range-over-func loop the receiver arrives as a captured variable
	capt := map[ssa.Value]ssa.Value{}
	for _, f2 := range withClosures(fn) {
		allInstrs(f2, func(in ssa.Instruction) {
			if mc, ok := in.(*ssa.MakeClosure); ok {
				if cl, ok := mc.Fn.(*ssa.Function); ok {
					for i, b := range mc.Bindings {
						if i < len(cl.FreeVars) {
							capt[cl.FreeVars[i]] = b
						}
					}
				}
			}
		})
	}
	fromRecv := func(v ssa.Value) bool {
		for i := 0; i < 3; i++ {
			if fromRecvD(v, 0) {
				return true
			}
			if a, ok := loadAddr(v); ok {
				if b, isCapt := capt[a]; isCapt {
					// a load of a captured cell: what the parent stored into it
					if al, isAl := b.(*ssa.Alloc); isAl {
						for _, r := range referrersOf(al) {
							if st, ok := r.(*ssa.Store); ok && st.Addr == ssa.Value(al) && (fromRecvD(st.Val, 0) || (len(fn.Params) > 0 && st.Val == ssa.Value(fn.Params[0]))) {
								return true
							}
						}
					}
					v = b
					continue
				}
			}
			if b, isCapt := capt[v]; isCapt {
				v = b
				continue
			}
			break
		}
		return false
	}
	for _, f2 := range withClosures(fn) {
	allInstrs(f2, func(in ssa.Instruction) {
		switch x := in.(type) {
		case *ssa.MapUpdate:
			if fromRecv(x.Map) {
				e.grows = true
			}
		case *ssa.Call:
			if b, ok := x.Call.Value.(*ssa.Builtin); ok {
				switch b.Name() {
				case "delete":
					if fromRecv(x.Call.Args[0]) {
						e.shrinks = true
					}
				case "clear":
					if fromRecv(x.Call.Args[0]) {
						e.empties = true
					}
				case "len":
					if fromRecv(x.Call.Args[0]) {
						for _, r := range referrersOf(x) {
							if _, ok := r.(*ssa.Return); ok {
								e.readsLen = true
							}
						}
					}
				}
				return
			}
			if cal := staticCallee(&x.Call); cal != nil && cal.Blocks != nil && len(x.Call.Args) > 0 && (fromRecv(x.Call.Args[0]) || x.Call.Args[0] == ssa.Value(fn.Params[0])) {
				sub := classifySetMethod(cal)
				e.grows = e.grows || sub.grows
				e.shrinks = e.shrinks || sub.shrinks
				e.empties = e.empties || sub.empties
			}
		}
	})
	}
	return e
}

type counterModel struct {
	P                *Prog
	bufF, capF, pF   *types.Var
	effects          map[*ssa.Function]setEffect
	unknownBufEvents []string
	methods          map[*ssa.Function]bool
	depth            int
	outState         map[*ssa.BasicBlock]ival // δ after each block in the last top-level analysis (when asked for)
}

// isMembershipTest: a two-parameter bool method that returns exactly the comma-ok of looking its argument up
// in a map (mapset's Has).
func isMembershipTest(fn *ssa.Function) bool {
	fn = origin(fn)
	if fn == nil || fn.Blocks == nil || len(fn.Params) != 2 {
		return false
	}
	var lk *ssa.Lookup
	n := 0
	good := true
	allInstrs(fn, func(in ssa.Instruction) {
		switch x := in.(type) {
		case *ssa.Lookup:
			if x.CommaOk && x.Index == ssa.Value(fn.Params[1]) {
				lk = x
			}
		case *ssa.Return:
			n++
			ex, ok := x.Results[0].(*ssa.Extract)
			if len(x.Results) != 1 || !ok || ex.Index != 1 || lk == nil || ex.Tuple != ssa.Value(lk) {
				good = false
			}
		case *ssa.MapUpdate, *ssa.Store, ssa.CallInstruction:
			good = false
		}
	})
	return good && n > 0 && lk != nil
}

// recvHelper: call is a static call, from method fn, of another Counter method on the same receiver.
func (m *counterModel) recvHelper(call *ssa.Call, fn *ssa.Function) *ssa.Function {
	cal := staticCallee(&call.Call)
	if cal == nil || cal.Blocks == nil || !m.methods[cal] || cal == fn || len(fn.Params) == 0 || len(call.Call.Args) == 0 || call.Call.Args[0] != ssa.Value(fn.Params[0]) {
		return nil
	}
	return cal
}

// closure: fn and the Counter helpers it (transitively) calls on its receiver.
func (m *counterModel) closure(fn *ssa.Function) []*ssa.Function {
	out, seen := []*ssa.Function{fn}, map[*ssa.Function]bool{fn: true}
	for i := 0; i < len(out); i++ {
		f := out[i]
		allInstrs(f, func(in ssa.Instruction) {
			if call, ok := in.(*ssa.Call); ok {
				if h := m.recvHelper(call, f); h != nil && !seen[h] {
					seen[h] = true
					out = append(out, h)
				}
			}
		})
	}
	return out
}

// predCmpsExact: predCmps, and whether the comparisons are the whole predicate (true exactly when all hold): every
// branch of the function contributed one comparison and every other way to the result is a constant false.
func predCmpsExact(fn *ssa.Function) ([]Cmp, bool) {
	cmps := predCmps(fn)
	if len(cmps) == 0 {
		return nil, false
	}
	ifs := 0
	allInstrs(fn, func(in ssa.Instruction) {
		if _, ok := in.(*ssa.If); ok {
			ifs++
		}
	})
	return cmps, ifs == len(cmps)-1
}

// predPaths: for a small loop-free function with one boolean result, the branch facts along every path that ends
// in "true" and along every path that ends in "false" (a computed result contributes itself as the last fact).
func predPaths(fn *ssa.Function) (truePaths, falsePaths [][]Fact, ok bool) {
	if fn == nil || fn.Blocks == nil || fn.Signature.Results().Len() != 1 || hasLoop(fn) {
		return nil, nil, false
	}
	n := 0
	good := true
	var walk func(b, pred *ssa.BasicBlock, facts []Fact)
	walk = func(b, pred *ssa.BasicBlock, facts []Fact) {
		n++
		if n > 64 {
			good = false
			return
		}
		last := b.Instrs[len(b.Instrs)-1]
		switch x := last.(type) {
		case *ssa.If:
			for i, sc := range b.Succs {
				walk(sc, b, append(append([]Fact(nil), facts...), Fact{x.Cond, i == 0}))
			}
		case *ssa.Jump:
			walk(b.Succs[0], b, facts)
		case *ssa.Return:
			if len(x.Results) != 1 {
				good = false
				return
			}
			v := x.Results[0]
			if ph, isPhi := v.(*ssa.Phi); isPhi && ph.Block() == b {
				for j, p := range b.Preds {
					if p == pred {
						v = ph.Edges[j]
					}
				}
			}
			if k, isK := v.(*ssa.Const); isK && k.Value != nil {
				if k.Value.String() == "true" {
					truePaths = append(truePaths, facts)
				} else {
					falsePaths = append(falsePaths, facts)
				}
				return
			}
			truePaths = append(truePaths, append(append([]Fact(nil), facts...), Fact{v, true}))
			falsePaths = append(falsePaths, append(append([]Fact(nil), facts...), Fact{v, false}))
		default:
			// panic and the like: no result
		}
	}
	walk(fn.Blocks[0], nil, nil)
	return truePaths, falsePaths, good && len(truePaths)+len(falsePaths) > 0
}

// predCmps: comparisons that hold whenever the bool-returning function returns true.
func predCmps(fn *ssa.Function) []Cmp {
	if fn == nil || fn.Blocks == nil {
		return nil
	}
	var rets []*ssa.Return
	allInstrs(fn, func(in ssa.Instruction) {
		if r, ok := in.(*ssa.Return); ok {
			rets = append(rets, r)
		}
	})
	if len(rets) != 1 || len(rets[0].Results) != 1 {
		return nil
	}
	isFalse := func(v ssa.Value) bool {
		c, ok := v.(*ssa.Const)
		return ok && c.Value != nil && c.Value.String() == "false"
	}
	var out []Cmp
	switch x := rets[0].Results[0].(type) {
	case *ssa.BinOp:
		out = append(out, Cmp{x.X, x.Y, x.Op})
		out = append(out, cmpsAt(x.Block())...)
	case *ssa.Phi:
		n := 0
		for i, e := range x.Edges {
			if isFalse(e) {
				continue
			}
			n++
			if n > 1 {
				return nil
			}
			if bo, ok := e.(*ssa.BinOp); ok {
				out = append(out, Cmp{bo.X, bo.Y, bo.Op})
			}
			pred := x.Block().Preds[i]
			out = append(out, cmpsAt(pred)...)
			// the edge pred -> φ block itself
			if iff, ok := pred.Instrs[len(pred.Instrs)-1].(*ssa.If); ok {
				for k, sc := range pred.Succs {
					if sc == x.Block() {
						if cm, ok := edgeCmp(iff, k); ok {
							out = append(out, cm)
						}
					}
				}
			}
		}
	}
	return out
}

func (m *counterModel) isBufRecv(v ssa.Value) bool {
	// load c.buf (value receiver) or &c.buf (pointer receiver)
	if _, f := loadedField(v); f != nil && sameField(f, m.bufF) {
		return true
	}
	if fa, ok := v.(*ssa.FieldAddr); ok {
		if _, f := fieldVarOf(fa); sameField(f, m.bufF) {
			return true
		}
	}
	return false
}

// bufEvent: the effect of one instruction on the buffer, whichever way the buffer is kept: a method of a set
// type, a builtin on a plain map (delete, clear), a map update, or a fresh map stored into the field.
// elems are the element operands (for "is this about v").
func (m *counterModel) bufEvent(in ssa.Instruction) (e setEffect, k int, what string, elems []ssa.Value, ok bool) {
	switch x := in.(type) {
	case *ssa.MapUpdate:
		if m.isBufRecv(x.Map) {
			return setEffect{grows: true}, 1, "map update", []ssa.Value{x.Key}, true
		}
	case *ssa.Store:
		if fa, isFA := x.Addr.(*ssa.FieldAddr); isFA {
			if _, f := fieldVarOf(fa); sameField(f, m.bufF) {
				if _, fresh := x.Val.(*ssa.MakeMap); fresh {
					return setEffect{empties: true}, 0, "fresh map", nil, true
				}
			}
		}
	case *ssa.Call:
		if b, isB := x.Call.Value.(*ssa.Builtin); isB {
			if len(x.Call.Args) == 0 || !m.isBufRecv(x.Call.Args[0]) {
				return
			}
			switch b.Name() {
			case "delete":
				return setEffect{shrinks: true}, 1, "delete", x.Call.Args[1:], true
			case "clear":
				return setEffect{empties: true}, 0, "clear", nil, true
			}
			return
		}
		cal := staticCallee(&x.Call)
		if cal == nil || len(x.Call.Args) == 0 || !m.isBufRecv(x.Call.Args[0]) {
			// maps.DeleteFunc(buf, pred): removes any number of elements
			if cal != nil && len(x.Call.Args) >= 1 && m.isBufRecv(x.Call.Args[0]) {
				return
			}
			if sc := x.Call.StaticCallee(); sc != nil && origin(sc).Pkg != nil && origin(sc).Pkg.Pkg.Path() == "maps" && origin(sc).Name() == "DeleteFunc" && len(x.Call.Args) >= 1 && m.isBufRecv(x.Call.Args[0]) {
				return setEffect{shrinks: true}, posInf, "DeleteFunc", nil, true
			}
			return
		}
		if o := origin(cal); o != nil && o.Pkg != nil && o.Pkg.Pkg.Path() == "maps" && o.Name() == "DeleteFunc" {
			return setEffect{shrinks: true}, posInf, "DeleteFunc", nil, true
		}
		eff, known := m.effects[cal]
		if !known {
			eff = classifySetMethod(cal)
			m.effects[cal] = eff
		}
		if !eff.grows && !eff.shrinks && !eff.empties {
			return
		}
		// the variadic element arguments
		if n := len(x.Call.Args); n >= 2 {
			if sl, isSl := x.Call.Args[n-1].(*ssa.Slice); isSl {
				if al, isAl := sl.X.(*ssa.Alloc); isAl {
					for _, r := range referrersOf(al) {
						if ia, isIA := r.(*ssa.IndexAddr); isIA {
							for _, r2 := range referrersOf(ia) {
								if st, isSt := r2.(*ssa.Store); isSt {
									elems = append(elems, st.Val)
								}
							}
						}
					}
				}
			}
		}
		return eff, variadicCount(x), cal.Name(), elems, true
	}
	return
}

// lenCall: v is a call that reads |buf|.
func (m *counterModel) isLenOfBuf(v ssa.Value) bool {
	if ph, isPhi := v.(*ssa.Phi); isPhi {
		// a loop variable re-read from the buffer on every edge (for n := Len(); …; n = Len()): current as long
		// as nothing touches the buffer between the read and the end of the block it is made in
		if len(ph.Edges) == 0 {
			return false
		}
		for i, e := range ph.Edges {
			ec, isCall := e.(*ssa.Call)
			if !isCall || !m.isLenOfBuf(e) || ec.Block() != ph.Block().Preds[i] {
				return false
			}
			after := false
			for _, in := range ec.Block().Instrs {
				if in == ssa.Instruction(ec) {
					after = true
					continue
				}
				if after {
					if _, _, _, _, touches := m.bufEvent(in); touches {
						return false
					}
				}
			}
		}
		return true
	}
	call, ok := v.(*ssa.Call)
	if !ok {
		return false
	}
	if ln, ok := isBuiltinCall(v, "len"); ok {
		return m.isBufRecv(ln.Call.Args[0])
	}
	cal := staticCallee(&call.Call)
	if cal == nil || len(call.Call.Args) == 0 || !m.isBufRecv(call.Call.Args[0]) {
		return false
	}
	e, ok := m.effects[cal]
	if !ok {
		e = classifySetMethod(cal)
		m.effects[cal] = e
	}
	return e.readsLen && !e.grows && !e.shrinks && !e.empties
}

func variadicCount(call *ssa.Call) int {
	n := len(call.Call.Args)
	if n == 0 {
		return posInf
	}
	if sl, ok := call.Call.Args[n-1].(*ssa.Slice); ok {
		if al, ok := sl.X.(*ssa.Alloc); ok {
			if at, ok := al.Type().Underlying().(*types.Pointer).Elem().Underlying().(*types.Array); ok {
				return int(at.Len())
			}
		}
	}
	return posInf
}

// analyse runs the interval analysis of δ = |buf| - cap over fn; returns the
// join of δ at all normal returns, and a description of the worst exit.
func (m *counterModel) analyse(fn *ssa.Function, entry ival) (ival, string) {
	visits := map[*ssa.BasicBlock]int{}
	exit := ival{bot: true}
	worst := ""
	// the tracked element: the method's own (single) argument
	var tv ssa.Value
	if len(fn.Params) == 2 && m.depth == 0 {
		tv = fn.Params[1]
	}
	onlyTracked := func(elems []ssa.Value) bool {
		return tv != nil && len(elems) == 1 && elems[0] == tv
	}
	transfer := func(b *ssa.BasicBlock, s ival) ival {
		for _, ins := range b.Instrs {
			if call, ok := ins.(*ssa.Call); ok {
				if h := m.recvHelper(call, fn); h != nil && m.depth < 4 {
					// a helper method on the same counter: its effect on δ is its own exit interval
					m.depth++
					hs := s
					hs.mem = 0
					ex, _ := m.analyse(h, hs)
					m.depth--
					if ex.bot {
						return ival{bot: true}
					}
					s = ex
					s.mem = 0
					continue
				}
			}
			e, k, _, elems, ok := m.bufEvent(ins)
			if !ok {
				continue
			}
			switch {
			case e.empties && !e.grows:
				s.lo, s.hi = negInf, -1 // |buf| = 0 and cap >= 1
				s.mem = 2
			case e.grows && !e.shrinks:
				switch {
				case k == 1 && onlyTracked(elems) && s.mem == 1:
					// already there: the set does not grow
				case k == 1 && onlyTracked(elems) && s.mem == 2:
					s.lo, s.hi = addSat(s.lo, 1), addSat(s.hi, 1)
				case k == posInf:
					s.hi = posInf
				default:
					s.hi = addSat(s.hi, k)
				}
				if k == 1 && onlyTracked(elems) {
					s.mem = 1
				} else if s.mem == 2 {
					s.mem = 0
				}
			case e.shrinks && !e.grows:
				switch {
				case k == 1 && onlyTracked(elems) && s.mem == 1:
					s.lo, s.hi = addSat(s.lo, -1), addSat(s.hi, -1)
				case k == 1 && onlyTracked(elems) && s.mem == 2:
				case k == posInf:
					s.lo = negInf
				default:
					s.lo = addSat(s.lo, -k)
				}
				if k == 1 && onlyTracked(elems) {
					s.mem = 2
				} else if s.mem == 1 {
					s.mem = 0
				}
			case e.grows && e.shrinks:
				s.lo, s.hi = negInf, posInf
				s.mem = 0
			}
		}
		return s
	}
	var refineCmp func(cm Cmp, s ival) ival
	refine := func(iff *ssa.If, succ int, s ival) ival {
		cm, ok := edgeCmp(iff, succ)
		if !ok {
			// boolean call: IsEmpty-like
			f := expandFact(Fact{iff.Cond, succ == 0})[0]
			if call, ok := f.Cond.(*ssa.Call); ok {
				if cal := staticCallee(&call.Call); cal != nil && cal.Name() == "IsEmpty" && len(call.Call.Args) > 0 && m.isBufRecv(call.Call.Args[0]) && f.Truth {
					s.hi = min(s.hi, -1)
				}
				// membership of the tracked element
				if cal := staticCallee(&call.Call); cal != nil && tv != nil && len(call.Call.Args) == 2 && m.isBufRecv(call.Call.Args[0]) && call.Call.Args[1] == tv && isMembershipTest(cal) {
					want := int8(2)
					if f.Truth {
						want = 1
					}
					if s.mem != 0 && s.mem != want {
						s.lo, s.hi = posInf, negInf // infeasible
					}
					s.mem = want
				}
				// a predicate method of the counter itself (`for c.isFull() {…}`): its comparisons hold on the true
				// edge; on the false edge one of them fails (only when they are exactly the predicate)
				if h := m.recvHelper(call, fn); h != nil {
					// a loop-free predicate: every path to "true" (or to "false") is a conjunction of branch facts;
					// the refinement is the join over the paths of the meet of their facts
					if tp, fp, ok := predPaths(h); ok {
						paths := fp
						if f.Truth {
							paths = tp
						}
						r := ival{bot: true}
						for _, p := range paths {
							s2 := s
							for _, pf := range p {
								for _, g := range expandFact(pf) {
									switch y := g.Cond.(type) {
									case *ssa.BinOp:
										op := y.Op
										if !g.Truth {
											op = negOp(op)
										}
										if op != token.ILLEGAL {
											s2 = refineCmp(Cmp{y.X, y.Y, op}, s2)
										}
									case *ssa.Call:
										if cal := staticCallee(&y.Call); cal != nil && cal.Name() == "IsEmpty" && len(y.Call.Args) > 0 && m.isBufRecv(y.Call.Args[0]) && g.Truth {
											s2.hi = min(s2.hi, -1)
										}
									}
								}
							}
							if s2.lo > s2.hi {
								continue
							}
							if r.bot {
								r = s2
							} else {
								m0 := r.mem
								r = r.join(s2)
								r.mem = m0
							}
						}
						if r.bot {
							s.lo, s.hi = posInf, negInf
							return s
						}
						r.mem = s.mem
						return r
					}
					cmps, exact := predCmpsExact(h)
					if f.Truth {
						for _, hc := range cmps {
							s = refineCmp(hc, s)
						}
					} else if exact && len(cmps) > 0 {
						r := ival{bot: true}
						for _, hc := range cmps {
							if op := negOp(hc.Op); op != token.ILLEGAL {
								r = r.join(refineCmp(Cmp{hc.X, hc.Y, op}, s))
							} else {
								r = r.join(s)
							}
						}
						s = r
					}
				}
			}
			return s
		}
		return refineCmp(cm, s)
	}
	refineCmp = func(cm Cmp, s ival) ival {
		x, y, op := cm.X, cm.Y, cm.Op
		if !m.isLenOfBuf(x) && m.isLenOfBuf(y) {
			x, y, op = y, x, flipOp(op)
		}
		if !m.isLenOfBuf(x) {
			// Len ± a against cap ± b:  δ + (a − b) op 0
			strip := func(v ssa.Value) (ssa.Value, int, bool) {
				if bo, ok := v.(*ssa.BinOp); ok && (bo.Op == token.ADD || bo.Op == token.SUB) {
					if k, ok := constInt(bo.Y); ok && k > -1000 && k < 1000 {
						if bo.Op == token.SUB {
							k = -k
						}
						return bo.X, int(k), true
					}
				}
				return v, 0, false
			}
			for _, swap := range []bool{false, true} {
				xx, yy, oo := x, y, op
				if swap {
					xx, yy, oo = y, x, flipOp(op)
				}
				lx, a, sx := strip(xx)
				cy, b2, sy := strip(yy)
				if !sx && !sy || !m.isLenOfBuf(lx) {
					continue
				}
				if _, f := loadedField(cy); f == nil || !sameField(f, m.capF) {
					continue
				}
				d := a - b2
				switch oo {
				case token.GEQ:
					s.lo = max(s.lo, -d)
				case token.GTR:
					s.lo = max(s.lo, 1-d)
				case token.LSS:
					s.hi = min(s.hi, -1-d)
				case token.LEQ:
					s.hi = min(s.hi, -d)
				case token.EQL:
					s.lo, s.hi = max(s.lo, -d), min(s.hi, -d)
				}
				return s
			}
			return s
		}
		if _, f := loadedField(y); f != nil && sameField(f, m.capF) {
			switch op {
			case token.GEQ:
				s.lo = max(s.lo, 0)
			case token.GTR:
				s.lo = max(s.lo, 1)
			case token.LSS:
				s.hi = min(s.hi, -1)
			case token.LEQ:
				s.hi = min(s.hi, 0)
			case token.EQL:
				s.lo, s.hi = max(s.lo, 0), min(s.hi, 0)
			}
			return s
		}
		if n, ok := constInt(y); ok {
			// |buf| compared with a constant: |buf| <= n means δ <= n - cap <= n - 1
			switch op {
			case token.LEQ:
				s.hi = min(s.hi, int(n)-1)
			case token.LSS:
				s.hi = min(s.hi, int(n)-2)
			case token.EQL:
				s.hi = min(s.hi, int(n)-1)
			}
		}
		return s
	}
	// the state of a block is one interval per knowledge about the tracked element (unknown, present, absent),
	// so that `room for one more || (room && already there)` keeps the two reasons apart
	type st3 [3]ival
	bot3 := st3{{bot: true}, {bot: true, mem: 1}, {bot: true, mem: 2}}
	put := func(t *st3, v ival) {
		if v.bot || v.lo > v.hi {
			return
		}
		k := v.mem
		if t[k].bot {
			t[k] = v
		} else {
			t[k] = t[k].join(v)
			t[k].mem = k
		}
	}
	flat := func(t st3) ival {
		r := ival{bot: true}
		for _, v := range t {
			if !v.bot {
				if r.bot {
					r = v
				} else {
					r = r.join(v)
				}
			}
		}
		return r
	}
	in3 := map[*ssa.BasicBlock]st3{}
	for _, b := range fn.Blocks {
		in3[b] = bot3
	}
	e3 := bot3
	put(&e3, entry)
	in3[fn.Blocks[0]] = e3
	work := []*ssa.BasicBlock{fn.Blocks[0]}
	for len(work) > 0 {
		b := work[0]
		work = work[1:]
		visits[b]++
		out3 := bot3
		for _, v := range in3[b] {
			if !v.bot {
				put(&out3, transfer(b, v))
			}
		}
		out := flat(out3)
		if m.depth == 0 && m.outState != nil {
			m.outState[b] = out
		}
		if out.bot {
			continue
		}
		last := b.Instrs[len(b.Instrs)-1]
		if _, ok := last.(*ssa.Return); ok {
			if exit.bot || out.hi > exit.hi {
				worst = m.P.pos(instrPos(last))
			}
			exit = exit.join(out)
		}
		for i, sc := range b.Succs {
			o3 := bot3
			for _, o := range out3 {
				if o.bot {
					continue
				}
				if iff, ok := last.(*ssa.If); ok {
					o = refine(iff, i, o)
				}
				put(&o3, o) // infeasible edges (lo > hi) are dropped
			}
			nw := in3[sc]
			for _, o := range o3 {
				put(&nw, o)
			}
			if visits[sc] > 3 {
				// widening
				for k := range nw {
					old := in3[sc][k]
					if !old.bot {
						if nw[k].hi > old.hi {
							nw[k].hi = posInf
						}
						if nw[k].lo < old.lo {
							nw[k].lo = negInf
						}
					}
				}
			}
			if nw != in3[sc] {
				in3[sc] = nw
				work = append(work, sc)
			}
		}
	}
	return exit, worst
}

func runC19(c *Ctx) {
	P := c.P
	c.Explanation = "Decides: (R-BUF-BOUND) 'Len never exceeds the buffer size' as an inductive invariant found by a one-variable abstract interpretation of δ = |buf| − cap over the go/ssa CFG of every Counter method: transfer functions for the mapset calls are derived on every run from mapset's own bodies (grows by ≤ k, shrinks, empties, reads length), guards on Len() vs cap refine δ, loops are iterated to a fixpoint with widening; the check looks for k ∈ {−1, 0} with δ ≤ k established by the constructor and preserved from entry to every exit of every method. (R-P-MONOTONE) p is only ever set to MaxUint64 (constructor, Reset) or shifted right, and Count is Len × 2^LeadingZeros(p), so the scale never decreases before Reset. (R-EXACT-REGIME) removals and halvings are control-dependent on p < MaxUint64 or Len ≥ cap, so below capacity the buffer is the exact set. (R-PASS-COMPLETE) a removal pass over the buffer has no exit but exhaustion; (R-SEED-FRESH) each counter's random source is seeded from a local buffer filled by crypto/rand in the constructor call. Does NOT decide unbiasedness (a statement about a probability distribution) or the p = 0 corner after 64 passes."
	c.rule("R-BUF-BOUND", 4, "some k in {-1,0}: constructor establishes |buf|-cap <= k and every method preserves it from entry to every exit")
	c.rule("R-P-MONOTONE", 3, "every store to p is MaxUint64 or load(p) >> const; Count = Len × (1 << LeadingZeros64(p))")
	c.rule("R-RESET-PAIR", 1, "outside the constructor, p := MaxUint64 is paired in-block with emptying the buffer")
	c.rule("R-REROLL", 1, "every path through Add removes v from or adds v to the buffer (membership is re-decided on every occurrence)")
	c.rule("R-HALVE-PAIR", 1, "every removal pass over the buffer is followed by a halving of p before the next pass or return")
	c.rule("R-PASS-COMPLETE", 0, "a range over the buffer that removes elements has no exit other than exhaustion: every buffered element gets its coin flip in a pass that halves p")
	c.rule("R-SEED-FRESH", 1, "each counter's random source is seeded from a local buffer filled by crypto/rand in the constructor call itself, not from a value shared between counters")
	c.rule("R-EXACT-REGIME", 2, "every removal and every halving in Add is control-dependent on p < MaxUint64 or Len >= cap")
	c.assume("the constructor is called with size >= 1 (cap >= 1)")
	c.assume("mapset.Set methods have the effects derived from their bodies (grow by at most the number of arguments, shrink, empty)")

	m := &counterModel{P: P, effects: map[*ssa.Function]setEffect{}}
	m.bufF, m.capF, m.pF = resolveCounterFields(P)
	ctor := P.Func("distinct", "", "NewCounter")
	if m.bufF == nil || m.capF == nil || m.pF == nil || ctor == nil {
		c.undecided("ANCHOR", "distinct.Counter fields / NewCounter", 0, "anchor not found")
		return
	}
	methods := P.Methods("distinct", "Counter")
	m.methods = map[*ssa.Function]bool{}
	for _, fn := range methods {
		m.methods[fn] = true
	}
	c.sawFn(fnName(ctor))
	// constructor: buf = fresh empty map, cap = size param; no other store to cap anywhere
	ctorOK := false
	allInstrs(ctor, func(in ssa.Instruction) {
		if st, ok := in.(*ssa.Store); ok {
			if fa, ok := st.Addr.(*ssa.FieldAddr); ok {
				if _, f := fieldVarOf(fa); sameField(f, m.bufF) {
					if _, ok := st.Val.(*ssa.MakeMap); ok {
						ctorOK = true
					}
				}
			}
		}
	})
	if !ctorOK {
		// … or the constructor hands its fresh counter (buffer still nil) to a method that allocates the buffer
		// exactly when it is nil (a Reset shared between construction and re-use)
		allInstrs(ctor, func(in ssa.Instruction) {
			call, ok := in.(*ssa.Call)
			if !ok || len(call.Call.Args) == 0 {
				return
			}
			cal := staticCallee(&call.Call)
			if cal == nil || !m.methods[origin(cal)] {
				return
			}
			if al, ok := call.Call.Args[0].(*ssa.Alloc); !ok || !al.Heap {
				return
			}
			allInstrs(origin(cal), func(in2 ssa.Instruction) {
				st, ok := in2.(*ssa.Store)
				if !ok {
					return
				}
				fa, ok := st.Addr.(*ssa.FieldAddr)
				if !ok {
					return
				}
				if _, f := fieldVarOf(fa); !sameField(f, m.bufF) {
					return
				}
				if _, ok := st.Val.(*ssa.MakeMap); !ok {
					return
				}
				for _, cm := range cmpsAt(st.Block()) {
					if cm.Op == token.EQL && isNilConst(cm.Y) {
						if _, f := loadedField(cm.X); f != nil && sameField(f, m.bufF) {
							ctorOK = true
						}
					}
				}
			})
		})
	}
	ruleCounterExtras(c, m, ctor)
	ruleCounterPass(c, m)
	rulePointerReceivers(c, "distinct", "Counter")
	ruleSizeGuard(c, "mapset")
	c.judge(ctorOK, "R-BUF-BOUND", "distinct.NewCounter:establishes", ctor.Pos(), "buffer starts as a fresh empty set: |buf| − cap ≤ −1 for cap ≥ 1", "constructor does not start with a fresh empty buffer")
	for _, fn := range P.PkgFuncs("distinct") {
		allInstrs(fn, func(in ssa.Instruction) {
			if st, ok := in.(*ssa.Store); ok {
				if fa, ok := st.Addr.(*ssa.FieldAddr); ok {
					_, f := fieldVarOf(fa)
					_, isAlloc := fa.X.(*ssa.Alloc)
					if sameField(f, m.capF) && !(isAlloc && origin(fn) == ctor) {
						c.bad("R-BUF-BOUND", fnName(fn)+":store cap", st.Pos(), "capacity is changed after construction")
					}
					if sameField(f, m.bufF) && !(isAlloc && origin(fn) == ctor) {
						if _, fresh := st.Val.(*ssa.MakeMap); !fresh {
							c.bad("R-BUF-BOUND", fnName(fn)+":store buf", st.Pos(), "buffer is replaced after construction by something other than a fresh empty map (its size is no longer tracked)")
						}
					}
				}
			}
		})
	}
	// find an inductive k
	type res struct {
		fn    *ssa.Function
		exit  ival
		worst string
	}
	var best []res
	bestK, found := 0, false
	for _, k := range []int{-1, 0} {
		var rs []res
		okAll := true
		for _, fn := range methods {
			ex, worst := m.analyse(fn, ival{lo: negInf, hi: k})
			rs = append(rs, res{fn, ex, worst})
			if !ex.bot && ex.hi > k {
				okAll = false
			}
		}
		if okAll {
			best, bestK, found = rs, k, true
			break
		}
		if best == nil || k == -1 {
			best, bestK = rs, k
		}
	}
	boundFound, boundK := found, bestK
	for _, r := range best {
		c.sawFn(fnName(r.fn))
		key := fnName(r.fn) + ":exit"
		if found {
			c.ok("R-BUF-BOUND", key, r.fn.Pos(), fmt.Sprintf("entry δ ≤ %d ⇒ exit δ ∈ %s", bestK, r.exit))
		} else if !r.exit.bot && r.exit.hi > bestK {
			c.bad("R-BUF-BOUND", key, r.fn.Pos(), fmt.Sprintf("no inductive bound: entering with |buf| − cap ≤ %d the method can return with |buf| − cap ∈ %s (worst exit at %s); with entry ≤ 0 it is no better. The halving pass may remove nothing, leaving Len = cap, and the next Add makes Len = cap + 1", bestK, r.exit, r.worst))
		} else {
			c.ok("R-BUF-BOUND", key, r.fn.Pos(), fmt.Sprintf("entry δ ≤ %d ⇒ exit δ ∈ %s", bestK, r.exit))
		}
	}
	effs := map[string]string{}
	for fn, e := range m.effects {
		effs[fnName(fn)] = fmt.Sprintf("grows=%v shrinks=%v empties=%v readsLen=%v", e.grows, e.shrinks, e.empties, e.readsLen)
	}
	c.Extra["derived_set_effects"] = effs
	c.Extra["inductive_k"] = map[string]any{"found": found, "k": bestK}

	// ---- R-P-MONOTONE
	maxU := constant.MakeUint64(math.MaxUint64)
	for _, fn := range P.PkgFuncs("distinct") {
		allInstrs(fn, func(in ssa.Instruction) {
			st, ok := in.(*ssa.Store)
			if !ok {
				return
			}
			fa, ok := st.Addr.(*ssa.FieldAddr)
			if !ok {
				return
			}
			if _, f := fieldVarOf(fa); !sameField(f, m.pF) {
				return
			}
			c.sawFn(fnName(fn))
			key := fnName(fn) + ":store p"
			if cst, ok := st.Val.(*ssa.Const); ok && cst.Value != nil && constant.Compare(constant.ToInt(cst.Value), token.EQL, maxU) {
				c.ok("R-P-MONOTONE", key, st.Pos(), "p := MaxUint64 (probability 1)")
				// R-RESET-PAIR: returning to probability 1 outside the constructor must empty the buffer in the same block
				if _, isAlloc := fa.X.(*ssa.Alloc); !isAlloc {
					emptied := false
					for _, in2 := range st.Block().Instrs {
						if e, _, _, _, ok := m.bufEvent(in2); ok && e.empties {
							emptied = true
						}
					}
					c.judge(emptied, "R-RESET-PAIR", fnName(fn)+":p=Max", st.Pos(), "buffer emptied together with p := MaxUint64", "p returns to probability 1 while the buffer keeps a down-sampled set: Count is no longer exact after Reset")
				}
				return
			}
			if bo, ok := st.Val.(*ssa.BinOp); ok && bo.Op == token.SHR {
				if _, f := loadedField(bo.X); f != nil && sameField(f, m.pF) {
					if n, ok := constInt(bo.Y); ok && n > 0 {
						c.ok("R-P-MONOTONE", key, st.Pos(), "p := p >> const")
						return
					}
				}
			}
			c.bad("R-P-MONOTONE", key, st.Pos(), "p is assigned something other than MaxUint64 or p >> const: the scale factor may decrease before Reset")
		})
	}
	if cnt := P.Func("distinct", "Counter", "Count"); cnt != nil {
		okC := false
		allInstrs(cnt, func(in ssa.Instruction) {
			ret, ok := in.(*ssa.Return)
			if !ok || len(ret.Results) != 1 {
				return
			}
			mul, ok := ret.Results[0].(*ssa.BinOp)
			if !ok || (mul.Op != token.MUL && mul.Op != token.SHL) {
				return
			}
			isLen := func(v ssa.Value) bool {
				if cv, ok := v.(*ssa.Convert); ok {
					v = cv.X
				}
				return m.isLenOfBuf(v)
			}
			// the number of leading zeros of p: bits.LeadingZeros64(p), or 64 − bits.Len64(p), which is its definition
			isLZ := func(y ssa.Value) bool {
				if cv, ok := y.(*ssa.Convert); ok {
					y = cv.X
				}
				want := "LeadingZeros64"
				if bo, ok := y.(*ssa.BinOp); ok && bo.Op == token.SUB && isConstInt(bo.X, 64) {
					y, want = bo.Y, "Len64"
				}
				call, ok := y.(*ssa.Call)
				if !ok {
					return false
				}
				// a one-line accessor of the counter that returns the count (c.passes()): read its return instead
				if h := origin(staticCallee(&call.Call)); h != nil && h.Blocks != nil && len(h.Blocks) == 1 && h.Pkg == origin(cnt).Pkg && want == "LeadingZeros64" {
					if ret, ok := h.Blocks[0].Instrs[len(h.Blocks[0].Instrs)-1].(*ssa.Return); ok && len(ret.Results) == 1 {
						if inner, ok := ret.Results[0].(*ssa.Call); ok {
							call = inner
						}
					}
				}
				cal := call.Call.StaticCallee()
				if cal == nil || cal.Pkg == nil || cal.Pkg.Pkg.Path() != "math/bits" || cal.Name() != want {
					return false
				}
				_, f := loadedField(call.Call.Args[0])
				return f != nil && sameField(f, m.pF)
			}
			isPow := func(v ssa.Value) bool {
				shl, ok := v.(*ssa.BinOp)
				if !ok || shl.Op != token.SHL || !isConstInt(shl.X, 1) {
					return false
				}
				return isLZ(shl.Y)
			}
			if mul.Op == token.MUL && ((isLen(mul.X) && isPow(mul.Y)) || (isLen(mul.Y) && isPow(mul.X))) {
				okC = true
			}
			// Len << LeadingZeros64(p): the same product written as a shift
			if mul.Op == token.SHL && isLen(mul.X) && isLZ(mul.Y) {
				okC = true
			}
		})
		c.judge(okC, "R-P-MONOTONE", "distinct.(*Counter).Count:formula", cnt.Pos(), "Count = Len × (1 << LeadingZeros64(p))", "Count is not Len times 2^LeadingZeros64(p)")
	} else {
		c.undecided("ANCHOR", "distinct.(*Counter).Count", 0, "not found")
	}

	// ---- converse of R-RESET-PAIR: emptying the buffer outside the constructor returns p to MaxUint64 in the same block
	for _, fn := range methods {
		allInstrs(fn, func(in ssa.Instruction) {
			e, _, what, _, ok := m.bufEvent(in)
			if !ok || !e.empties || what == "fresh map" {
				return // a lazily allocated fresh map replaces a nil (empty) one: nothing is discarded
			}
			call := in
			reset := false
			for _, in2 := range in.Block().Instrs {
				if st, ok := in2.(*ssa.Store); ok {
					if fa, ok := st.Addr.(*ssa.FieldAddr); ok {
						if _, f := fieldVarOf(fa); sameField(f, m.pF) {
							if cst, ok := st.Val.(*ssa.Const); ok && cst.Value != nil && constant.Compare(constant.ToInt(cst.Value), token.EQL, maxU) {
								reset = true
							}
						}
					}
				}
			}
			c.judge(reset, "R-RESET-PAIR", fnName(fn)+":buffer emptied", call.Pos(), "p := MaxUint64 together with emptying the buffer", "the buffer is emptied but p keeps its down-sampled scale: after Reset the count of fewer than cap values is no longer exact")
		})
	}

	// ---- R-REROLL / R-HALVE-PAIR: two structural necessary conditions of unbiasedness
	if add := P.Func("distinct", "Counter", "Add"); add != nil && len(add.Params) == 2 {
		v := add.Params[1]
		var touches func(in ssa.Instruction, v ssa.Value, d int) bool
		touches = func(in ssa.Instruction, v ssa.Value, d int) bool {
			e, _, _, elems, ok := m.bufEvent(in)
			if ok && (e.grows || e.shrinks) {
				for _, el := range elems {
					if el == v {
						return true
					}
				}
			}
			// a helper of the package that is handed v and adds or removes it on every one of its paths
			// (c.insert(v)) re-decides it just as well
			if call, isCall := in.(*ssa.Call); isCall && d < 2 {
				if cal := staticCallee(&call.Call); cal != nil && cal.Blocks != nil && cal.Pkg == origin(add).Pkg {
					for j, a := range call.Call.Args {
						if a != v || j >= len(cal.Params) {
							continue
						}
						pv := ssa.Value(cal.Params[j])
						all, _ := mustPassToExitE(P, firstInstr(cal), func(x ssa.Instruction) bool { return touches(x, pv, d+1) }, nil)
						if all || touches(firstInstr(cal), pv, d+1) {
							return true
						}
					}
				}
			}
			return false
		}
		touchesV := func(in ssa.Instruction) bool { return touches(in, v, 0) }
		okR, wit := mustPassToExitE(P, firstInstr(add), touchesV, func(iff *ssa.If, i int) bool {
			// on an edge where the buffer is known to be empty, "remove v" has nothing to do
			cm, ok := edgeCmp(iff, i)
			if !ok {
				return false
			}
			x, y, op := cm.X, cm.Y, cm.Op
			if !m.isLenOfBuf(x) && m.isLenOfBuf(y) {
				x, y, op = y, x, flipOp(op)
			}
			if !m.isLenOfBuf(x) {
				return false
			}
			k, isC := constInt(y)
			return isC && ((op == token.EQL && k == 0) || (op == token.LEQ && k == 0) || (op == token.LSS && k == 1))
		})
		if touchesV(firstInstr(add)) {
			okR = true
		}
		c.judge(okR, "R-REROLL", "distinct.(*Counter).Add:membership re-decided", add.Pos(), "every path either removes v from or adds v to the buffer", "Add can return without re-deciding v's membership ("+wit+"): a value already buffered skips its coin flip, which biases the estimate upward")
		// each removal pass is followed by a halving of p before the next pass or exit; the pass and the
		// halving may live in helper methods on the same counter
		storesP := func(in ssa.Instruction) bool {
			st, ok := in.(*ssa.Store)
			if !ok {
				return false
			}
			fa, ok := st.Addr.(*ssa.FieldAddr)
			if !ok {
				return false
			}
			_, f := fieldVarOf(fa)
			return sameField(f, m.pF)
		}
		alwaysHalves := map[*ssa.Function]bool{}
		for _, h := range m.closure(add)[1:] {
			if okH, _ := mustPassToExit(P, firstInstr(h), storesP); okH || storesP(firstInstr(h)) {
				alwaysHalves[h] = true
			}
		}
		// unpaired[h]: h can return after a removal pass without having halved p
		unpaired := map[*ssa.Function]bool{}
		passFound := false
		var judgeFn func(fn *ssa.Function, depth int)
		judged := map[*ssa.Function]bool{}
		judgeFn = func(fn *ssa.Function, depth int) {
			if judged[fn] || depth > 4 {
				return
			}
			judged[fn] = true
			isShift := func(in ssa.Instruction) bool {
				if storesP(in) {
					return true
				}
				if call, ok := in.(*ssa.Call); ok {
					if h := m.recvHelper(call, fn); h != nil && alwaysHalves[h] {
						return true
					}
				}
				return false
			}
			// pass events of fn: where each one is over
			type pass struct {
				at    ssa.Instruction // the range / the call
				after ssa.Instruction // first instruction once the pass is over
			}
			var passes []pass
			allInstrs(fn, func(in ssa.Instruction) {
				switch x := in.(type) {
				case *ssa.Next:
					if r, ok := x.Iter.(*ssa.Range); ok && m.isBufRecv(r.X) {
						if iff, ok := x.Block().Instrs[len(x.Block().Instrs)-1].(*ssa.If); ok {
							passes = append(passes, pass{r, iff.Block().Succs[1].Instrs[0]})
						}
					}
				case *ssa.Call:
					if _, _, w, _, ok := m.bufEvent(x); ok && w == "DeleteFunc" {
						// a removal pass written as maps.DeleteFunc over the buffer
						b := x.Block()
						for k, in2 := range b.Instrs {
							if in2 == in && k+1 < len(b.Instrs) {
								passes = append(passes, pass{x, b.Instrs[k+1]})
							}
						}
					}
					if h := m.recvHelper(x, fn); h != nil {
						judgeFn(h, depth+1)
						if unpaired[h] {
							b := x.Block()
							for k, in2 := range b.Instrs {
								if in2 == in && k+1 < len(b.Instrs) {
									passes = append(passes, pass{x, b.Instrs[k+1]})
								}
							}
						}
					}
				}
			})
			isPass := func(in ssa.Instruction) bool {
				for _, p := range passes {
					if p.at == in {
						return true
					}
				}
				return false
			}
			for _, p := range passes {
				passFound = true
				c.sawFn(fnName(fn))
				// another pass without halving in between is always wrong
				again, wit := reachesWithout(P, p.after, true, isPass, isShift)
				// reaching a return without halving: wrong in Add itself, deferred to the callers for a helper
				toRet, wit2 := reachesWithout(P, p.after, true, isReturn, isShift)
				key := fnName(fn) + ":pass"
				switch {
				case again:
					c.bad("R-HALVE-PAIR", key, p.at.Pos(), "a removal pass over the buffer can be followed by another pass without halving p ("+wit+"): survivors of k passes are weighted as if they had survived fewer, biasing the estimate low")
				case toRet && fn == add:
					c.bad("R-HALVE-PAIR", key, p.at.Pos(), "a removal pass over the buffer can be followed by a return without halving p ("+wit2+"): survivors of k passes are weighted as if they had survived fewer, biasing the estimate low")
				case toRet:
					unpaired[fn] = true
					c.ok("R-HALVE-PAIR", key, p.at.Pos(), "the pass is left to the callers to pair with a halving of p (checked at each call)")
				default:
					c.ok("R-HALVE-PAIR", key, p.at.Pos(), "every removal pass is followed by a halving of p before the next pass or return")
				}
			}
		}
		judgeFn(add, 0)
		if !passFound {
			c.undecided("R-HALVE-PAIR", "distinct.(*Counter).Add:pass", add.Pos(), "the removal pass over the buffer was not recognised")
		}
	} else {
		c.undecided("ANCHOR", "distinct.(*Counter).Add", 0, "not found")
	}

	// ---- R-EXACT-REGIME
	if add := P.Func("distinct", "Counter", "Add"); add != nil {
		isRegimeCmp := func(cm Cmp) bool {
			x, y, op := cm.X, cm.Y, cm.Op
			if _, f := loadedField(x); f != nil && sameField(f, m.pF) {
				if cst, ok := y.(*ssa.Const); ok && cst.Value != nil && constant.Compare(constant.ToInt(cst.Value), token.EQL, maxU) && (op == token.LSS || op == token.NEQ) {
					return true
				}
			}
			if !m.isLenOfBuf(x) && m.isLenOfBuf(y) {
				x, y, op = y, x, flipOp(op)
			}
			if m.isLenOfBuf(x) {
				if _, f := loadedField(y); f != nil && sameField(f, m.capF) && (op == token.GEQ || op == token.GTR || op == token.EQL) {
					return true
				}
			}
			return false
		}
		regime := func(b *ssa.BasicBlock) bool {
			for _, cm := range cmpsAt(b) {
				if isRegimeCmp(cm) {
					return true
				}
			}
			// a predicate helper on the same counter known to have returned true
			fn := b.Parent()
			for call, truth := range callFactsAt(b) {
				if !truth {
					continue
				}
				if h := m.recvHelper(call, fn); h != nil {
					for _, cm := range predCmps(h) {
						if isRegimeCmp(cm) {
							return true
						}
					}
				}
			}
			return false
		}
		// call sites of each helper within Add's closure
		cl := m.closure(add)
		callers := map[*ssa.Function][]*ssa.Call{}
		for _, f := range cl {
			allInstrs(f, func(in ssa.Instruction) {
				if call, ok := in.(*ssa.Call); ok {
					if h := m.recvHelper(call, f); h != nil {
						callers[h] = append(callers[h], call)
					}
				}
			})
		}
		// Len ≥ cap known from the interval analysis itself (under the invariant R-BUF-BOUND established): some
		// block on every way to b ends with δ ≥ 0
		var addOut map[*ssa.BasicBlock]ival
		if boundFound {
			m.outState = map[*ssa.BasicBlock]ival{}
			m.analyse(add, ival{lo: negInf, hi: boundK})
			addOut = m.outState
			m.outState = nil
			if os.Getenv("MDS_DEBUG") != "" {
				for _, b := range add.Blocks {
					fmt.Fprintf(os.Stderr, "c19 out b%d (%s) = %s mem=%d\n", b.Index, b.Comment, addOut[b], addOut[b].mem)
				}
			}
		}
		var inRegime func(b *ssa.BasicBlock, depth int) bool
		inRegime = func(b *ssa.BasicBlock, depth int) bool {
			if regime(b) {
				return true
			}
			for d, o := range addOut {
				if d != b && d.Dominates(b) && !o.bot && o.lo >= 0 && o.lo != posInf {
					return true
				}
			}
			fn := b.Parent()
			if fn == add || depth > 4 || len(callers[fn]) == 0 {
				return false
			}
			for _, call := range callers[fn] {
				if !inRegime(call.Block(), depth+1) {
					return false
				}
			}
			return true
		}
		n := 0
		for _, fn := range cl {
			allInstrs(fn, func(in ssa.Instruction) {
				var what string
				if e, _, w, _, ok := m.bufEvent(in); ok && (e.shrinks || e.empties) && w != "fresh map" {
					what = "removal " + w
				} else if x, isSt := in.(*ssa.Store); isSt {
					fa, ok := x.Addr.(*ssa.FieldAddr)
					if !ok {
						return
					}
					if _, f := fieldVarOf(fa); !sameField(f, m.pF) {
						return
					}
					what = "halving of p"
				} else {
					return
				}
				n++
				c.sawFn(fnName(fn))
				c.judge(inRegime(in.Block(), 0), "R-EXACT-REGIME", fnName(fn)+":"+what, instrPos(in), "only reachable once p < MaxUint64 or Len ≥ cap", "a removal/halving can happen while fewer than cap distinct values have been seen: the count is no longer exact below capacity")
			})
		}
		if n == 0 {
			c.undecided("R-EXACT-REGIME", "distinct.(*Counter).Add", add.Pos(), "no removal or halving found")
		}
	}
}

// ruleCounterExtras: R-PASS-COMPLETE and R-SEED-FRESH (two more necessary
// conditions of unbiasedness and of independent runs).
func ruleCounterExtras(c *Ctx, m *counterModel, ctor *ssa.Function) {
	P := c.P
	// ---- R-PASS-COMPLETE
	nPass := 0
	for fn := range m.methods {
		for _, f := range withClosures(fn) {
			f := f
			for _, b := range f.Blocks {
				for _, in := range b.Instrs {
					nx, ok := in.(*ssa.Next)
					if !ok {
						continue
					}
					rg, ok := nx.Iter.(*ssa.Range)
					if !ok {
						continue
					}
					if _, fld := loadedField(rg.X); fld == nil || !sameField(fld, m.bufF) {
						continue
					}
					// the loop: blocks dominated by the header that can reach it again
					hdr := b
					inLoop := map[*ssa.BasicBlock]bool{hdr: true}
					var stack []*ssa.BasicBlock
					for _, p := range hdr.Preds {
						if hdr.Dominates(p) {
							stack = append(stack, p)
						}
					}
					for len(stack) > 0 {
						x := stack[len(stack)-1]
						stack = stack[:len(stack)-1]
						if inLoop[x] {
							continue
						}
						inLoop[x] = true
						stack = append(stack, x.Preds...)
					}
					removes := false
					for lb := range inLoop {
						for _, in2 := range lb.Instrs {
							if call, ok := in2.(*ssa.Call); ok {
								if del, ok := isBuiltinCall(call, "delete"); ok {
									_ = del
									removes = true
								}
								if cal := staticCallee(&call.Call); cal != nil && origin(cal).Pkg != nil && origin(cal).Pkg.Pkg.Name() == "mapset" && (origin(cal).Name() == "Remove" || origin(cal).Name() == "RemoveAll" || origin(cal).Name() == "Pop") {
									removes = true
								}
							}
						}
					}
					if !removes {
						continue
					}
					nPass++
					c.sawFn(fnName(f))
					var exits []string
					for lb := range inLoop {
						for si, sb := range lb.Succs {
							if inLoop[sb] {
								continue
							}
							// the one legitimate exit: the header's "iterator exhausted" edge
							if lb == hdr {
								if iff, ok := lb.Instrs[len(lb.Instrs)-1].(*ssa.If); ok {
									if ex, ok := iff.Cond.(*ssa.Extract); ok && ex.Tuple == ssa.Value(nx) && ex.Index == 0 && si == 1 {
										continue
									}
								}
							}
							if endsInPanic(sb) {
								continue
							}
							ep := token.NoPos
							for _, i3 := range lb.Instrs {
								if p := instrPos(i3); p != token.NoPos {
									ep = p
								}
							}
							exits = append(exits, P.pos(ep))
						}
					}
					sort.Strings(exits)
					c.judge(len(exits) == 0, "R-PASS-COMPLETE", fmt.Sprintf("%s:removal pass #%d", fnName(f), nPass), instrPos(rg.X.(ssa.Instruction)), "the pass ends only when every buffered element has been visited", fmt.Sprintf("the removal pass can be left early (at %v): the elements not yet visited survive without a coin flip while p is still halved, so the estimate is biased upward", exits))
				}
			}
		}
	}
	// ---- the capacity is the size the caller asked for; the halving loop can also end on an empty buffer
	{
		sizeOK, got := false, ""
		allInstrs(ctor, func(in ssa.Instruction) {
			if st, ok := in.(*ssa.Store); ok {
				if fa, ok := st.Addr.(*ssa.FieldAddr); ok {
					if _, f := fieldVarOf(fa); sameField(f, m.capF) {
						got = ksym(st.Val)
						if _, isP := st.Val.(*ssa.Parameter); isP {
							sizeOK = true
						}
					}
				}
			}
		})
		c.judge(sizeOK, "R-BUF-BOUND", "distinct.NewCounter:capacity is the requested size", ctor.Pos(), "cap = size", "the buffer limit stored by the constructor is "+got+", not the size it was given: halving starts one element early (or late), so counts below the requested size are no longer exact")
	}
	for fn := range m.methods {
		if fn.Name() != "Add" {
			continue
		}
		// loops whose continuation compares the buffer length with the capacity
		for _, b := range fn.Blocks {
			iff, ok := b.Instrs[len(b.Instrs)-1].(*ssa.If)
			if !ok {
				continue
			}
			bo, ok := iff.Cond.(*ssa.BinOp)
			if !ok || !(m.isLenOfBuf(bo.X) || m.isLenOfBuf(bo.Y)) {
				continue
			}
			_, fx := loadedField(bo.X)
			_, fy := loadedField(bo.Y)
			if !((fx != nil && sameField(fx, m.capF)) || (fy != nil && sameField(fy, m.capF))) {
				continue
			}
			// is b a loop header (or does it dominate a back edge)?
			isLoop := false
			for _, p := range b.Preds {
				if b.Dominates(p) {
					isLoop = true
				}
			}
			if !isLoop {
				continue
			}
			// the continue edge must lead (before the body proper) to an emptiness test of the buffer
			emptyExit := false
			seen := map[*ssa.BasicBlock]bool{}
			var walk func(x *ssa.BasicBlock, d int)
			walk = func(x *ssa.BasicBlock, d int) {
				if seen[x] || d > 3 {
					return
				}
				seen[x] = true
				for _, in := range x.Instrs {
					if call, ok := in.(*ssa.Call); ok {
						if cal := staticCallee(&call.Call); cal != nil && (cal.Name() == "IsEmpty") {
							emptyExit = true
						}
					}
					if bo2, ok := in.(*ssa.BinOp); ok && (m.isLenOfBuf(bo2.X) && isConstInt(bo2.Y, 0) || m.isLenOfBuf(bo2.Y) && isConstInt(bo2.X, 0)) {
						emptyExit = true
					}
				}
				if i2, ok := x.Instrs[len(x.Instrs)-1].(*ssa.If); ok && x != b {
					_ = i2
					return
				}
				for _, s2 := range x.Succs {
					walk(s2, d+1)
				}
			}
			for _, s2 := range b.Succs {
				walk(s2, 0)
			}
			c.sawFn(fnName(fn))
			c.judge(emptyExit, "R-BUF-BOUND", "distinct.(*Counter).Add:halving loop can end on an empty buffer", bo.Pos(), "the loop also stops when nothing is left to remove", "the halving loop repeats while Len ≥ cap with no exit for an empty buffer: with a limit of zero (or less) an emptied buffer still satisfies the condition and Add never returns")
		}
	}
	// ---- R-SEED-FRESH
	{
		n := 0
		for _, f := range buildCallScope(ctor).fns {
			f := f
			allInstrs(f, func(in ssa.Instruction) {
				call, ok := in.(*ssa.Call)
				if !ok {
					return
				}
				cal := staticCallee(&call.Call)
				if cal == nil || origin(cal).Pkg == nil || !strings.HasPrefix(origin(cal).Pkg.Pkg.Path(), "math/rand") || !strings.HasPrefix(origin(cal).Name(), "New") || len(call.Call.Args) == 0 {
					return
				}
				if origin(cal).Name() == "New" {
					return // wraps a Source built by one of the seeded constructors
				}
				n++
				c.sawFn(fnName(f))
				key := fmt.Sprintf("%s:seed of %s #%d", fnName(f), origin(cal).Name(), n)
				// every seed argument is a load of a local variable that crypto/rand fills in this function
				okAll, why := true, ""
				for _, a := range call.Call.Args {
					ld, isLoad := a.(*ssa.UnOp)
					var al *ssa.Alloc
					if isLoad && ld.Op == token.MUL {
						al, _ = ld.X.(*ssa.Alloc)
					}
					if al == nil {
						okAll, why = false, "the seed "+ksym(a)+" is not a local buffer of this call"
						continue
					}
					filled := false
					for _, r := range referrersOf(al) {
						if sl, ok := r.(*ssa.Slice); ok {
							for _, r2 := range referrersOf(sl) {
								if c2, ok := r2.(*ssa.Call); ok {
									if rc := staticCallee(&c2.Call); rc != nil && origin(rc).Pkg != nil && origin(rc).Pkg.Pkg.Path() == "crypto/rand" && dominatesInstr(c2, call) {
										filled = true
									}
								}
							}
						}
					}
					if !filled {
						okAll, why = false, "the seed buffer is not filled by crypto/rand before it is used"
					}
				}
				c.judge(okAll, "R-SEED-FRESH", key, call.Pos(), "seeded from a local buffer filled by crypto/rand in this call", why+": counters constructed in one process share their random choices, so separate runs are not independent and their mean does not converge")
			})
		}
		if n == 0 {
			c.undecided("R-SEED-FRESH", "distinct.NewCounter:seed", ctor.Pos(), "no seeded random source is constructed under NewCounter")
		}
	}
}
