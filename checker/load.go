package main

// E-load: loading /repo with go/packages, building go/ssa, enumerating source
// functions (including uninstantiated generic methods), anchor resolution.

import (
	"fmt"
	"go/ast"
	"go/token"
	"go/types"
	"os"
	"path/filepath"
	"sort"
	"strings"

	"golang.org/x/tools/go/packages"
	"golang.org/x/tools/go/ssa"
	"golang.org/x/tools/go/ssa/ssautil"
)

const modPath = "github.com/creachadair/mds"

// canaryFile is the name of the overlay file injected into selected packages.
const canaryFile = "zz_verif_canary_overlay.go"

type Prog struct {
	Repo   string
	Fset   *token.FileSet
	Pkgs   map[string]*packages.Package // by short path ("cache", "internal/mdtest")
	SSA    *ssa.Program
	SPkgs  map[string]*ssa.Package
	Funcs  []*ssa.Function            // every source function of the repository (Synthetic == "")
	byPkg  map[string][]*ssa.Function // short path -> functions
	Config string                     // e.g. "linux/amd64"
}

func shortPath(p string) string {
	if p == modPath {
		return "."
	}
	return strings.TrimPrefix(p, modPath+"/")
}

// loadRepo loads every package of the repository at dir.  goarch may be "".
// overlays maps short package path -> Go source of an extra (canary) file.
func loadRepo(dir, goarch string, overlays map[string]string) (*Prog, error) {
	abs, err := filepath.Abs(dir)
	if err != nil {
		return nil, err
	}
	env := []string{}
	for _, e := range os.Environ() {
		if strings.HasPrefix(e, "GOWORK=") || strings.HasPrefix(e, "GOFLAGS=") ||
			strings.HasPrefix(e, "GOPROXY=") || strings.HasPrefix(e, "GOARCH=") ||
			strings.HasPrefix(e, "GOSUMDB=") || strings.HasPrefix(e, "GOTOOLCHAIN=") {
			continue
		}
		env = append(env, e)
	}
	env = append(env, "GOWORK=off", "GOFLAGS=-mod=mod", "GOPROXY=off", "GOSUMDB=off", "GOTOOLCHAIN=local")
	cfgName := "default"
	if goarch != "" {
		env = append(env, "GOARCH="+goarch)
		cfgName = goarch
	}
	fset := token.NewFileSet()
	cfg := &packages.Config{
		Mode:  packages.LoadAllSyntax,
		Dir:   abs,
		Fset:  fset,
		Env:   env,
		Tests: false,
	}
	if len(overlays) > 0 {
		cfg.Overlay = map[string][]byte{}
		for sp, src := range overlays {
			cfg.Overlay[filepath.Join(abs, sp, canaryFile)] = []byte(src)
		}
	}
	pkgs, err := packages.Load(cfg, "./...")
	if err != nil {
		return nil, fmt.Errorf("packages.Load: %w", err)
	}
	if len(pkgs) == 0 {
		return nil, fmt.Errorf("no packages loaded from %s", abs)
	}
	var errs []string
	packages.Visit(pkgs, nil, func(p *packages.Package) {
		for _, e := range p.Errors {
			errs = append(errs, fmt.Sprintf("%s: %s", p.PkgPath, e.Error()))
		}
	})
	if len(errs) > 0 {
		return nil, fmt.Errorf("load/type errors:\n  %s", strings.Join(errs, "\n  "))
	}
	prog, _ := ssautil.AllPackages(pkgs, ssa.BuilderMode(0))
	prog.Build()

	P := &Prog{Repo: abs, Fset: fset, Pkgs: map[string]*packages.Package{}, SSA: prog,
		SPkgs: map[string]*ssa.Package{}, byPkg: map[string][]*ssa.Function{}, Config: cfgName}
	for _, p := range pkgs {
		if !strings.HasPrefix(p.PkgPath, modPath) {
			continue
		}
		sp := shortPath(p.PkgPath)
		P.Pkgs[sp] = p
		sp2 := prog.Package(p.Types)
		if sp2 == nil {
			return nil, fmt.Errorf("no SSA package for %s", p.PkgPath)
		}
		P.SPkgs[sp] = sp2
	}
	// Enumerate functions.
	seen := map[*ssa.Function]bool{}
	var add func(sp string, fn *ssa.Function)
	add = func(sp string, fn *ssa.Function) {
		if fn == nil || seen[fn] || fn.Blocks == nil {
			return
		}
		// range-over-func loop bodies are source code although go/ssa marks them synthetic
		if fn.Synthetic != "" && !strings.HasPrefix(fn.Synthetic, "range-over-func") {
			return
		}
		seen[fn] = true
		P.Funcs = append(P.Funcs, fn)
		P.byPkg[sp] = append(P.byPkg[sp], fn)
		for _, an := range fn.AnonFuncs {
			add(sp, an)
		}
	}
	for sp, spkg := range P.SPkgs {
		names := make([]string, 0, len(spkg.Members))
		for n := range spkg.Members {
			names = append(names, n)
		}
		sort.Strings(names)
		for _, n := range names {
			switch m := spkg.Members[n].(type) {
			case *ssa.Function:
				add(sp, m)
			case *ssa.Type:
				if named, ok := m.Type().(*types.Named); ok {
					for i := 0; i < named.NumMethods(); i++ {
						add(sp, prog.FuncValue(named.Method(i)))
					}
				}
			}
		}
		// package initializer (for package-level var tables)
		if init := spkg.Func("init"); init != nil && !seen[init] {
			seen[init] = true
		}
	}
	sort.Slice(P.Funcs, func(i, j int) bool { return P.Funcs[i].Pos() < P.Funcs[j].Pos() })
	return P, nil
}

// isCanaryFn reports whether fn was declared in the injected overlay file.
func (P *Prog) isCanaryFn(fn *ssa.Function) bool {
	for fn.Parent() != nil {
		fn = fn.Parent()
	}
	if !fn.Pos().IsValid() {
		return false
	}
	return filepath.Base(P.Fset.Position(fn.Pos()).Filename) == canaryFile
}

// origin maps an instantiation to its generic origin.
func origin(fn *ssa.Function) *ssa.Function {
	if fn == nil {
		return nil
	}
	if o := fn.Origin(); o != nil {
		return o
	}
	return fn
}

// fnName renders a stable short name: pkg.(*Recv).Name, pkg.Name, parent$1.
func fnName(fn *ssa.Function) string {
	if fn == nil {
		return "<nil>"
	}
	fn = origin(fn)
	if fn.Parent() != nil {
		// anonymous function: name is like "New$1"
		return fnName(fn.Parent()) + strings.TrimPrefix(fn.Name(), fn.Parent().Name())
	}
	pkg := ""
	if fn.Pkg != nil {
		pkg = fn.Pkg.Pkg.Name()
	} else if fn.Object() != nil && fn.Object().Pkg() != nil {
		pkg = fn.Object().Pkg().Name()
	}
	if recv := fn.Signature.Recv(); recv != nil {
		t := recv.Type()
		ptr := ""
		if p, ok := t.(*types.Pointer); ok {
			t = p.Elem()
			ptr = "*"
		}
		tn := "?"
		if n, ok := t.(*types.Named); ok {
			tn = n.Obj().Name()
		}
		if ptr != "" {
			return fmt.Sprintf("%s.(*%s).%s", pkg, tn, fn.Name())
		}
		return fmt.Sprintf("%s.%s.%s", pkg, tn, fn.Name())
	}
	return pkg + "." + fn.Name()
}

// Func resolves a function or method by package short path, receiver type
// name ("" for package-level functions) and name.  nil if absent.
func (P *Prog) Func(pkg, recv, name string) *ssa.Function {
	sp := P.SPkgs[pkg]
	if sp == nil {
		return nil
	}
	if recv == "" {
		return sp.Func(name)
	}
	tm, ok := sp.Members[recv].(*ssa.Type)
	if !ok {
		return nil
	}
	named, ok := tm.Type().(*types.Named)
	if !ok {
		return nil
	}
	for i := 0; i < named.NumMethods(); i++ {
		if m := named.Method(i); m.Name() == name {
			return P.SSA.FuncValue(m)
		}
	}
	return nil
}

// Named resolves a named type of the repository.
func (P *Prog) Named(pkg, name string) *types.Named {
	p := P.Pkgs[pkg]
	if p == nil {
		return nil
	}
	obj := p.Types.Scope().Lookup(name)
	if obj == nil {
		return nil
	}
	n, _ := obj.Type().(*types.Named)
	return n
}

// Field resolves a struct field object of a named struct type.
func (P *Prog) Field(pkg, typ, field string) *types.Var {
	n := P.Named(pkg, typ)
	if n == nil {
		return nil
	}
	st, ok := n.Underlying().(*types.Struct)
	if !ok {
		return nil
	}
	for i := 0; i < st.NumFields(); i++ {
		if st.Field(i).Name() == field {
			return st.Field(i)
		}
	}
	return nil
}

// Methods returns the source functions for all methods of a named type.
func (P *Prog) Methods(pkg, typ string) []*ssa.Function {
	n := P.Named(pkg, typ)
	if n == nil {
		return nil
	}
	var out []*ssa.Function
	for i := 0; i < n.NumMethods(); i++ {
		if f := P.SSA.FuncValue(n.Method(i)); f != nil && f.Blocks != nil {
			out = append(out, f)
		}
	}
	sort.Slice(out, func(i, j int) bool { return out[i].Pos() < out[j].Pos() })
	return out
}

// MethodsDeep: the methods of the named type and of every same-package struct type it embeds or holds by
// value (so that a split of a type into an embedded part does not hide its methods).
func (P *Prog) MethodsDeep(pkg, typ string) []*ssa.Function {
	n := P.Named(pkg, typ)
	if n == nil {
		return nil
	}
	var out []*ssa.Function
	seen := map[*types.TypeName]bool{}
	var visit func(n *types.Named, depth int)
	visit = func(n *types.Named, depth int) {
		n = n.Origin()
		if seen[n.Obj()] || depth > 3 {
			return
		}
		seen[n.Obj()] = true
		for i := 0; i < n.NumMethods(); i++ {
			if f := P.SSA.FuncValue(n.Method(i)); f != nil && f.Blocks != nil {
				out = append(out, f)
			}
		}
		st, ok := n.Underlying().(*types.Struct)
		if !ok {
			return
		}
		for i := 0; i < st.NumFields(); i++ {
			ft := st.Field(i).Type()
			if p, ok := ft.(*types.Pointer); ok && st.Field(i).Embedded() {
				ft = p.Elem()
			}
			if fn, ok := ft.(*types.Named); ok && fn.Obj().Pkg() == n.Obj().Pkg() {
				if _, isStruct := fn.Underlying().(*types.Struct); isStruct {
					visit(fn, depth+1)
				}
			}
		}
	}
	visit(n, 0)
	sort.Slice(out, func(i, j int) bool { return out[i].Pos() < out[j].Pos() })
	return out
}

// FieldsDeep: the fields of the named struct type, followed through same-package struct-typed fields.
func (P *Prog) FieldsDeep(pkg, typ string) []*types.Var {
	n := P.Named(pkg, typ)
	if n == nil {
		return nil
	}
	var out []*types.Var
	seen := map[*types.TypeName]bool{}
	var visit func(n *types.Named, depth int)
	visit = func(n *types.Named, depth int) {
		n = n.Origin()
		if seen[n.Obj()] || depth > 3 {
			return
		}
		seen[n.Obj()] = true
		st, ok := n.Underlying().(*types.Struct)
		if !ok {
			return
		}
		for i := 0; i < st.NumFields(); i++ {
			f := st.Field(i)
			ft := f.Type()
			if fn, ok := ft.(*types.Named); ok && fn.Obj().Pkg() == n.Obj().Pkg() {
				if _, isStruct := fn.Underlying().(*types.Struct); isStruct {
					visit(fn, depth+1)
					continue
				}
			}
			out = append(out, f)
		}
	}
	visit(n, 0)
	return out
}

// PkgFuncs returns all source functions (incl. closures) of a package.
func (P *Prog) PkgFuncs(pkg string) []*ssa.Function {
	fs := append([]*ssa.Function(nil), P.byPkg[pkg]...)
	sort.Slice(fs, func(i, j int) bool { return fs[i].Pos() < fs[j].Pos() })
	return fs
}

// pos renders file:line relative to the repository root.
func (P *Prog) pos(p token.Pos) string {
	if !p.IsValid() {
		return "-"
	}
	ps := P.Fset.Position(p)
	rel, err := filepath.Rel(P.Repo, ps.Filename)
	if err != nil {
		rel = ps.Filename
	}
	return fmt.Sprintf("%s:%d", rel, ps.Line)
}

// instrPos finds the best position for an instruction (some have NoPos).
func instrPos(in ssa.Instruction) token.Pos {
	if in.Pos().IsValid() {
		return in.Pos()
	}
	if v, ok := in.(ssa.Value); ok {
		_ = v
	}
	// fall back to operands
	var ops []*ssa.Value
	for _, op := range in.Operands(ops) {
		if *op != nil && (*op).Pos().IsValid() {
			return (*op).Pos()
		}
	}
	// fall back to any positioned instruction in the same block
	if b := in.Block(); b != nil {
		for _, i2 := range b.Instrs {
			if i2.Pos().IsValid() {
				return i2.Pos()
			}
		}
		return b.Parent().Pos()
	}
	return token.NoPos
}

// fieldVar returns the *types.Var of the field selected by a FieldAddr/Field.
func fieldVarOf(v ssa.Value) (base ssa.Value, fld *types.Var) {
	switch x := v.(type) {
	case *ssa.FieldAddr:
		t := x.X.Type().Underlying().(*types.Pointer).Elem()
		st := structOf(t)
		if st == nil {
			return nil, nil
		}
		return x.X, st.Field(x.Field)
	case *ssa.Field:
		st := structOf(x.X.Type())
		if st == nil {
			return nil, nil
		}
		return x.X, st.Field(x.Field)
	}
	return nil, nil
}

func structOf(t types.Type) *types.Struct {
	for i := 0; i < 4; i++ {
		switch u := t.Underlying().(type) {
		case *types.Struct:
			return u
		case *types.Pointer:
			t = u.Elem()
		default:
			return nil
		}
	}
	return nil
}

// sameField compares field objects modulo generic instantiation.
func sameField(a, b *types.Var) bool {
	if a == nil || b == nil {
		return false
	}
	return a.Origin() == b.Origin()
}

// staticCallee returns the generic-origin callee of a call, or nil.
func staticCallee(c *ssa.CallCommon) *ssa.Function {
	if f := c.StaticCallee(); f != nil {
		return origin(f)
	}
	return nil
}

// funcDecl finds the AST declaration of a function object in a package.
func (P *Prog) funcDecl(pkg string, recv, name string) *ast.FuncDecl {
	p := P.Pkgs[pkg]
	if p == nil {
		return nil
	}
	for _, f := range p.Syntax {
		for _, d := range f.Decls {
			fd, ok := d.(*ast.FuncDecl)
			if !ok || fd.Name.Name != name {
				continue
			}
			if recv == "" && fd.Recv == nil {
				return fd
			}
			if recv != "" && fd.Recv != nil && len(fd.Recv.List) == 1 {
				if recvTypeName(fd.Recv.List[0].Type) == recv {
					return fd
				}
			}
		}
	}
	return nil
}

func recvTypeName(e ast.Expr) string {
	for {
		switch x := e.(type) {
		case *ast.StarExpr:
			e = x.X
		case *ast.IndexExpr:
			e = x.X
		case *ast.IndexListExpr:
			e = x.X
		case *ast.ParenExpr:
			e = x.X
		case *ast.Ident:
			return x.Name
		default:
			return ""
		}
	}
}
