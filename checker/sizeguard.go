package main

// R-SIZE-GUARD — a branch decided by comparing the length of an input container
// with a constant, one side of which leaves the function without doing any work
// (no store, no map update, no call; constants, parameters or zero values
// returned), is a statement that for those sizes there is nothing to do.  That
// is true of an empty container; it is true of a one-element container only
// for operations that merely permute their input in place (table below).  A
// guard that lets larger containers through the do-nothing exit drops their
// contents: Top() of a one-element stack answering "empty", New with one key
// building nothing, Sort returning two elements unsorted.

import (
	"fmt"
	"go/token"
	"go/types"

	"golang.org/x/tools/go/ssa"
)

// sizes up to which doing nothing is the right answer, by function; default 0
var trivialSize = map[string]int{
	"heapq.Sort":    1,
	"heapq.Reorder": 1, // a heap of one element is in order under every comparison
	"slice.Rotate":  1,
	"slice.Reverse": 1,
}

func ruleSizeGuard(c *Ctx, pkgs ...string) {
	c.rule("R-SIZE-GUARD", 0, "a do-nothing exit taken on len(container) vs a constant covers only sizes for which nothing needs doing (0; 1 for in-place permutations)")
	P := c.P
	for _, pkg := range pkgs {
		for _, fn := range P.PkgFuncs(pkg) {
			if P.isCanaryFn(fn) {
				continue
			}
			fn := fn
			top := fn
			for top.Parent() != nil {
				top = top.Parent()
			}
			// containers: parameters (incl. the receiver), their fields, and maps/slices loaded through them
			var fromInput func(v ssa.Value, d int) bool
			fromInput = func(v ssa.Value, d int) bool {
				if d > 5 {
					return false
				}
				switch x := v.(type) {
				case *ssa.Parameter:
					return true
				case *ssa.FreeVar:
					return true
				case *ssa.UnOp:
					if x.Op == token.MUL {
						return fromInput(x.X, d+1)
					}
				case *ssa.FieldAddr:
					return fromInput(x.X, d+1)
				case *ssa.Field:
					return fromInput(x.X, d+1)
				case *ssa.ChangeType:
					return fromInput(x.X, d+1)
				case *ssa.Alloc:
					// a parameter spilled to a cell
					for _, r := range referrersOf(x) {
						if st, ok := r.(*ssa.Store); ok && st.Addr == ssa.Value(x) {
							if _, isP := st.Val.(*ssa.Parameter); !isP {
								return false
							}
						}
					}
					return true
				}
				return false
			}
			quiet := func(start *ssa.BasicBlock, from *ssa.BasicBlock) bool {
				seen := map[*ssa.BasicBlock]bool{}
				ok := true
				sawReturn := false
				var walk func(b *ssa.BasicBlock)
				walk = func(b *ssa.BasicBlock) {
					if seen[b] || !ok {
						return
					}
					seen[b] = true
					if b == from {
						ok = false // loops back to the test: not an exit
						return
					}
					for _, in := range b.Instrs {
						switch y := in.(type) {
						case *ssa.Store:
							// stores that build a fresh result (fields of a new allocation) are not work on the input
							base := y.Addr
							for {
								switch a := base.(type) {
								case *ssa.FieldAddr:
									base = a.X
									continue
								case *ssa.IndexAddr:
									base = a.X
									continue
								}
								break
							}
							if _, isAlloc := base.(*ssa.Alloc); !isAlloc {
								ok = false
							}
						case *ssa.MapUpdate, *ssa.Send, *ssa.Go, *ssa.Defer, *ssa.Panic:
							ok = false
						case *ssa.Lookup, *ssa.Range, *ssa.Next, *ssa.Index, *ssa.IndexAddr:
							ok = false // looks at the contents of something: not an exit that ignores them
						case *ssa.Call:
							if bi, isB := y.Call.Value.(*ssa.Builtin); !isB {
								ok = false
							} else {
								switch bi.Name() {
								case "len", "cap", "min", "max":
								default: // delete, copy, append, clear … do the work
									ok = false
								}
							}
						case *ssa.RunDefers:
						case *ssa.Return:
							sawReturn = true
							for _, r := range y.Results {
								if !plainValue(r, 0) {
									ok = false
								}
							}
						}
					}
					for _, s := range b.Succs {
						walk(s)
					}
				}
				walk(start)
				return ok && sawReturn
			}
			// worked: something has already been done to the receiver when control reaches the end of b (a store that
			// is not into a fresh allocation, a map update, a call) — an exit behind it is not one that does nothing
			worked := func(b *ssa.BasicBlock) bool {
				for _, d := range fn.Blocks {
					if !d.Dominates(b) {
						continue
					}
					for _, in := range d.Instrs {
						switch y := in.(type) {
						case *ssa.Store:
							base := y.Addr
							for {
								switch a := base.(type) {
								case *ssa.FieldAddr:
									base = a.X
									continue
								case *ssa.IndexAddr:
									base = a.X
									continue
								}
								break
							}
							if _, isAlloc := base.(*ssa.Alloc); !isAlloc {
								return true
							}
						case *ssa.MapUpdate:
							return true
						}
					}
				}
				return false
			}
			n := 0
			for _, b := range fn.Blocks {
				if worked(b) {
					continue
				}
				iff, ok := b.Instrs[len(b.Instrs)-1].(*ssa.If)
				if !ok {
					continue
				}
				bo, ok := iff.Cond.(*ssa.BinOp)
				if !ok {
					continue
				}
				x, y, op := bo.X, bo.Y, bo.Op
				if _, isK := constInt(x); isK {
					x, y = y, x
					switch op {
					case token.LSS:
						op = token.GTR
					case token.LEQ:
						op = token.GEQ
					case token.GTR:
						op = token.LSS
					case token.GEQ:
						op = token.LEQ
					}
				}
				k, isK := constInt(y)
				// the size of an input container: len(x); x.Len() for a repository type; or the count field that
				// the container's own Len method returns
				var sized ssa.Value
				desc := ""
				if ln, isLen := isBuiltinCall(x, "len"); isLen && fromInput(ln.Call.Args[0], 0) {
					sized = ln.Call.Args[0]
					desc = "len(" + ksym(sized) + ")"
				} else if call, ok := x.(*ssa.Call); ok {
					if cal := staticCallee(&call.Call); cal != nil && cal.Name() == "Len" && cal.Blocks != nil && len(call.Call.Args) == 1 && fromInput(call.Call.Args[0], 0) {
						sized = call.Call.Args[0]
						desc = ksym(sized) + ".Len()"
					}
				} else if base, f := loadedField(x); f != nil && fromInput(base, 0) {
					if nt := namedOf(base.Type()); nt != nil {
						nt = nt.Origin()
						for i := 0; i < nt.NumMethods(); i++ {
							if nt.Method(i).Name() != "Len" {
								continue
							}
							lf := P.SSA.FuncValue(nt.Method(i))
							if lf == nil || len(lf.Blocks) != 1 {
								continue
							}
							if ret, ok := lf.Blocks[0].Instrs[len(lf.Blocks[0].Instrs)-1].(*ssa.Return); ok && len(ret.Results) == 1 {
								if _, g := loadedField(ret.Results[0]); g != nil && sameField(g, f) {
									sized = x
									desc = ksym(x)
								} else if g != nil && isIntType(f.Type()) && (token.IsExported(fn.Name()) || fn.Signature.Results().Len() > 0) {
									// another integer field of a container whose size is a field: an exit that does
									// nothing must not be keyed on it (an operation of the container, or a helper
									// that answers something; a private helper that only normalises that field —
									// `if q.head <= 0 { return }` in front of a rotation — is about that field)
									for si, sb := range b.Succs {
										if quiet(sb, b) {
											if kk, ok := constInt(y); ok {
												_ = si
												n++
												c.sawFn(fnName(fn))
												c.bad("R-SIZE-GUARD", fmt.Sprintf("%s:do-nothing exit on %s #%d", fnName(fn), ksym(x), n), bo.Pos(), fmt.Sprintf("an exit that does nothing and answers with constants is taken on `%s %s %d`; the container's size is .%s, not .%s: a non-empty container is treated as empty whenever .%s happens to be %d", ksym(x), bo.Op, kk, g.Name(), f.Name(), f.Name(), kk))
											}
										}
									}
								}
							}
						}
					}
				}
				// a count the caller asks for (an int parameter of an exported function): asking for one or more is
				// not a request to do nothing
				isCount := false
				if p, isP := x.(*ssa.Parameter); isP && sized == nil && isIntType(p.Type()) && top == fn && fn.Object() != nil && fn.Object().Exported() {
					sized, desc, isCount = x, p.Name(), true
				}
				if !isK || sized == nil {
					continue
				}
				holds := func(v int64) bool {
					switch op {
					case token.LSS:
						return v < k
					case token.LEQ:
						return v <= k
					case token.GTR:
						return v > k
					case token.GEQ:
						return v >= k
					case token.EQL:
						return v == k
					case token.NEQ:
						return v != k
					}
					return false
				}
				for si, s := range b.Succs {
					if !quiet(s, b) {
						continue
					}
					var max int64 = -1
					for v := int64(0); v <= k+3; v++ {
						if holds(v) == (si == 0) && v > max {
							max = v
						}
					}
					if max < 0 {
						continue
					}
					if isCount && max <= 0 {
						continue // n <= 0: nothing was asked for
					}
					n++
					c.sawFn(fnName(fn))
					lim := int64(trivialSize[pkg+"."+top.Name()])
					key := fmt.Sprintf("%s:do-nothing exit on %s #%d", fnName(fn), desc, n)
					if max > lim {
						sz := fmt.Sprint(max)
						if max == k+3 {
							sz = "any larger size"
						}
						if isCount {
							c.bad("R-SIZE-GUARD", key, bo.Pos(), fmt.Sprintf("the branch `%s %s %d` sends requests for up to %s through an exit that does nothing: a caller asking for %s gets nothing done (only a count ≤ 0 asks for nothing)", desc, bo.Op, k, sz, sz))
							continue
						}
						c.bad("R-SIZE-GUARD", key, bo.Pos(), fmt.Sprintf("the branch `%s %s %d` sends containers of size up to %s through an exit that does nothing and answers with constants: their contents are ignored (only size ≤ %d needs no work here)", desc, bo.Op, k, sz, lim))
					} else {
						c.ok("R-SIZE-GUARD", key, bo.Pos(), fmt.Sprintf("covers sizes ≤ %d", max))
					}
				}
			}
		}
	}
}

// plainValue: a constant, a parameter, a zero value, or a φ / conversion of such.
func plainValue(v ssa.Value, d int) bool {
	if d > 4 {
		return false
	}
	switch x := v.(type) {
	case *ssa.Const, *ssa.Parameter, *ssa.Alloc, *ssa.MakeMap, *ssa.MakeSlice:
		return true
	case *ssa.Phi:
		for _, e := range x.Edges {
			if !plainValue(e, d+1) {
				return false
			}
		}
		return true
	case *ssa.ChangeType:
		return plainValue(x.X, d+1)
	case *ssa.MakeInterface:
		return plainValue(x.X, d+1)
	case *ssa.UnOp:
		if x.Op == token.MUL {
			// a read of a zero-initialised local (var zero T) or of a cell holding a parameter
			if al, ok := x.X.(*ssa.Alloc); ok {
				for _, r := range referrersOf(al) {
					if st, ok := r.(*ssa.Store); ok && st.Addr == ssa.Value(al) {
						if !plainValue(st.Val, d+1) {
							return false
						}
					}
				}
				return true
			}
		}
	}
	_ = types.Typ
	return false
}

// ruleConstIndex (R-CONST-INDEX, an inconsistent-belief rule): where a function has tested the length of an input
// slice and then reaches into it at a CONSTANT position — x[k], x[k:] — the tests that dominate the access must
// make the length at least k+1 (k for a slice start).  `if len(ss) == 0 { return }; min := ss[1]` believes "not
// empty" and uses "at least two".  A function that never tests the length states no belief and is not judged.
func ruleConstIndex(c *Ctx, pkgs ...string) {
	c.rule("R-CONST-INDEX", 0, "a constant index (or slice start) into an input slice whose length the function tests is covered by the tests that dominate it")
	for _, pkg := range pkgs {
		for _, fn := range c.P.PkgFuncs(pkg) {
			if c.P.isCanaryFn(fn) {
				continue
			}
			fn := fn
			n := 0
			judge := func(in ssa.Instruction, xs ssa.Value, k int64, need int64, what string) {
				if _, isParam := xs.(*ssa.Parameter); !isParam {
					return
				}
				lb, tested := int64(0), false
				for _, cm := range cmpsAt(in.Block()) {
					x, y, op := cm.X, cm.Y, cm.Op
					if _, isLen := isBuiltinCall(y, "len"); isLen {
						x, y, op = y, x, flipOp(op)
					}
					ln, isLen := isBuiltinCall(x, "len")
					kk, isK := constInt(y)
					if !isLen || !isK || ln.Call.Args[0] != xs {
						continue
					}
					tested = true
					switch op {
					case token.NEQ:
						if kk == 0 {
							lb = max(lb, 1)
						}
					case token.GTR:
						lb = max(lb, kk+1)
					case token.GEQ, token.EQL:
						lb = max(lb, kk)
					}
				}
				if !tested {
					return
				}
				n++
				c.sawFn(fnName(fn))
				c.judge(lb >= need, "R-CONST-INDEX", fmt.Sprintf("%s:%s #%d", fnName(fn), what, n), in.Pos(), fmt.Sprintf("length known ≥ %d", lb), fmt.Sprintf("%s needs len(%s) ≥ %d, but the tests that lead here only make it ≥ %d: for a slice of %d element(s) this panics", what, ksym(xs), need, lb, lb))
			}
			allInstrs(fn, func(in ssa.Instruction) {
				switch x := in.(type) {
				case *ssa.IndexAddr:
					if k, ok := constInt(x.Index); ok && k >= 0 {
						if _, isSlice := x.X.Type().Underlying().(*types.Slice); isSlice {
							judge(in, x.X, k, k+1, fmt.Sprintf("%s[%d]", ksym(x.X), k))
						}
					}
				case *ssa.Slice:
					if x.Low != nil {
						if k, ok := constInt(x.Low); ok && k > 0 {
							if _, isSlice := x.X.Type().Underlying().(*types.Slice); isSlice {
								judge(in, x.X, k, k, fmt.Sprintf("%s[%d:]", ksym(x.X), k))
							}
						}
					}
				}
			})
		}
	}
}
