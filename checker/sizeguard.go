package main

// R-SIZE-GUARD — a branch decided by comparing the length of an input container
// with a constant, one side of which leaves the function without doing any work
// (no store, no map update, no call; constants, parameters or zero values
// returned), is a statement that for those sizes there is nothing to do.  That
// is true of an empty container; it is true of a one-element container only
// for operations that merely permute their input in place (table below).  A
// guard that lets larger containers through the do-nothing exit drops their
// contents: Top() of a one-element stack answering "empty", New with one key
// building nothing, Sort returning two elements unsorted.

import (
	"fmt"
	"go/token"
	"go/types"

	"golang.org/x/tools/go/ssa"
)

// sizes up to which doing nothing is the right answer, by function; default 0
var trivialSize = map[string]int{
	"heapq.Sort":    1,
	"heapq.Reorder": 1, // a heap of one element is in order under every comparison
	"slice.Rotate":  1,
	"slice.Reverse": 1,
}

func ruleSizeGuard(c *Ctx, pkgs ...string) {
	c.rule("R-SIZE-GUARD", 0, "a do-nothing exit taken on len(container) vs a constant covers only sizes for which nothing needs doing (0; 1 for in-place permutations)")
	P := c.P
	for _, pkg := range pkgs {
		for _, fn := range P.PkgFuncs(pkg) {
			if P.isCanaryFn(fn) {
				continue
			}
			fn := fn
			top := fn
			for top.Parent() != nil {
				top = top.Parent()
			}
			// containers: parameters (incl. the receiver), their fields, and maps/slices loaded through them
			var fromInput func(v ssa.Value, d int) bool
			fromInput = func(v ssa.Value, d int) bool {
				if d > 5 {
					return false
				}
				switch x := v.(type) {
				case *ssa.Parameter:
					return true
				case *ssa.FreeVar:
					return true
				case *ssa.UnOp:
					if x.Op == token.MUL {
						return fromInput(x.X, d+1)
					}
				case *ssa.FieldAddr:
					return fromInput(x.X, d+1)
				case *ssa.Field:
					return fromInput(x.X, d+1)
				case *ssa.ChangeType:
					return fromInput(x.X, d+1)
				case *ssa.Alloc:
					// a parameter spilled to a cell
					for _, r := range referrersOf(x) {
						if st, ok := r.(*ssa.Store); ok && st.Addr == ssa.Value(x) {
							if _, isP := st.Val.(*ssa.Parameter); !isP {
								return false
							}
						}
					}
					return true
				}
				return false
			}
			quiet := func(start *ssa.BasicBlock, from *ssa.BasicBlock) bool {
				seen := map[*ssa.BasicBlock]bool{}
				ok := true
				sawReturn := false
				var walk func(b *ssa.BasicBlock)
				walk = func(b *ssa.BasicBlock) {
					if seen[b] || !ok {
						return
					}
					seen[b] = true
					if b == from {
						ok = false // loops back to the test: not an exit
						return
					}
					for _, in := range b.Instrs {
						switch y := in.(type) {
						case *ssa.Store:
							// stores that build a fresh result (fields of a new allocation) are not work on the input
							base := y.Addr
							for {
								switch a := base.(type) {
								case *ssa.FieldAddr:
									base = a.X
									continue
								case *ssa.IndexAddr:
									base = a.X
									continue
								}
								break
							}
							if _, isAlloc := base.(*ssa.Alloc); !isAlloc {
								ok = false
							}
						case *ssa.MapUpdate, *ssa.Send, *ssa.Go, *ssa.Defer, *ssa.Panic:
							ok = false
						case *ssa.Call:
							if bi, isB := y.Call.Value.(*ssa.Builtin); !isB {
								ok = false
							} else {
								switch bi.Name() {
								case "len", "cap", "min", "max":
								default: // delete, copy, append, clear … do the work
									ok = false
								}
							}
						case *ssa.RunDefers:
						case *ssa.Return:
							sawReturn = true
							for _, r := range y.Results {
								if !plainValue(r, 0) {
									ok = false
								}
							}
						}
					}
					for _, s := range b.Succs {
						walk(s)
					}
				}
				walk(start)
				return ok && sawReturn
			}
			n := 0
			for _, b := range fn.Blocks {
				iff, ok := b.Instrs[len(b.Instrs)-1].(*ssa.If)
				if !ok {
					continue
				}
				bo, ok := iff.Cond.(*ssa.BinOp)
				if !ok {
					continue
				}
				x, y, op := bo.X, bo.Y, bo.Op
				if _, isK := constInt(x); isK {
					x, y = y, x
					switch op {
					case token.LSS:
						op = token.GTR
					case token.LEQ:
						op = token.GEQ
					case token.GTR:
						op = token.LSS
					case token.GEQ:
						op = token.LEQ
					}
				}
				k, isK := constInt(y)
				ln, isLen := isBuiltinCall(x, "len")
				if !isK || !isLen || !fromInput(ln.Call.Args[0], 0) {
					continue
				}
				holds := func(v int64) bool {
					switch op {
					case token.LSS:
						return v < k
					case token.LEQ:
						return v <= k
					case token.GTR:
						return v > k
					case token.GEQ:
						return v >= k
					case token.EQL:
						return v == k
					case token.NEQ:
						return v != k
					}
					return false
				}
				for si, s := range b.Succs {
					if !quiet(s, b) {
						continue
					}
					var max int64 = -1
					for v := int64(0); v <= k+3; v++ {
						if holds(v) == (si == 0) && v > max {
							max = v
						}
					}
					if max < 0 {
						continue
					}
					n++
					c.sawFn(fnName(fn))
					lim := int64(trivialSize[pkg+"."+top.Name()])
					key := fmt.Sprintf("%s:do-nothing exit on len(%s) #%d", fnName(fn), ksym(ln.Call.Args[0]), n)
					if max > lim {
						sz := fmt.Sprint(max)
						if max == k+3 {
							sz = "any larger size"
						}
						c.bad("R-SIZE-GUARD", key, bo.Pos(), fmt.Sprintf("the branch `len(%s) %s %d` sends containers of size up to %s through an exit that does nothing and answers with constants: their contents are ignored (only size ≤ %d needs no work here)", ksym(ln.Call.Args[0]), bo.Op, k, sz, lim))
					} else {
						c.ok("R-SIZE-GUARD", key, bo.Pos(), fmt.Sprintf("covers sizes ≤ %d", max))
					}
				}
			}
		}
	}
}

// plainValue: a constant, a parameter, a zero value, or a φ / conversion of such.
func plainValue(v ssa.Value, d int) bool {
	if d > 4 {
		return false
	}
	switch x := v.(type) {
	case *ssa.Const, *ssa.Parameter, *ssa.Alloc, *ssa.MakeMap, *ssa.MakeSlice:
		return true
	case *ssa.Phi:
		for _, e := range x.Edges {
			if !plainValue(e, d+1) {
				return false
			}
		}
		return true
	case *ssa.ChangeType:
		return plainValue(x.X, d+1)
	case *ssa.MakeInterface:
		return plainValue(x.X, d+1)
	case *ssa.UnOp:
		if x.Op == token.MUL {
			// a read of a zero-initialised local (var zero T) or of a cell holding a parameter
			if al, ok := x.X.(*ssa.Alloc); ok {
				for _, r := range referrersOf(al) {
					if st, ok := r.(*ssa.Store); ok && st.Addr == ssa.Value(al) {
						if !plainValue(st.Val, d+1) {
							return false
						}
					}
				}
				return true
			}
		}
	}
	_ = types.Typ
	return false
}
