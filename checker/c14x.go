package main

// C14, SSA-based additions: R-HEADER-SIDES and R-LINE-EXACT.

import (
	"fmt"
	"go/constant"
	"go/token"
	"go/types"
	"sort"
	"strings"

	"golang.org/x/tools/go/ssa"
)

// ruleHeaderSides: the reader fills FileInfo's (name, time) fields in pairs —
// the two results of one parse of a header line go to one side.  A writer call
// that is handed exactly one name field and exactly one time field of a
// FileInfo must be handed a pair the reader fills together: the header of the
// right-hand file carries the right-hand time.
func ruleHeaderSides(c *Ctx) {
	P := c.P
	c.rule("R-HEADER-SIDES", 2, "a header-writing call receives a FileInfo name field and time field that the reader fills from the same header line")
	fiT := P.Named("mdiff", "FileInfo")
	if fiT == nil {
		c.undecided("ANCHOR", "mdiff.FileInfo", 0, "type not found")
		return
	}
	isFI := func(t types.Type) bool {
		if p, ok := t.Underlying().(*types.Pointer); ok {
			t = p.Elem()
		}
		return isNamedOrigin(t, fiT)
	}
	isTime := func(t types.Type) bool {
		n, ok := t.(*types.Named)
		return ok && n.Obj().Pkg() != nil && n.Obj().Pkg().Path() == "time" && n.Obj().Name() == "Time"
	}
	isStr := func(t types.Type) bool {
		b, ok := t.Underlying().(*types.Basic)
		return ok && b.Kind() == types.String
	}
	// ---- reader pairs
	pairs := map[string]string{} // name field -> time field
	var pairDesc []string
	storedField := func(v ssa.Value) *types.Var {
		for _, r := range referrersOf(v) {
			if st, ok := r.(*ssa.Store); ok && st.Val == v {
				if fa, ok := st.Addr.(*ssa.FieldAddr); ok && isFI(fa.X.Type()) {
					_, f := fieldVarOf(fa)
					return f
				}
			}
		}
		return nil
	}
	for _, fn := range P.PkgFuncs("mdiff") {
		allInstrs(fn, func(in ssa.Instruction) {
			call, ok := in.(*ssa.Call)
			if !ok {
				return
			}
			tup, ok := call.Type().(*types.Tuple)
			if !ok || tup.Len() != 2 {
				return
			}
			var sf, tf *types.Var
			for _, r := range referrersOf(call) {
				ex, ok := r.(*ssa.Extract)
				if !ok {
					continue
				}
				f := storedField(ex)
				if f == nil {
					continue
				}
				if isStr(ex.Type()) {
					sf = f
				} else if isTime(ex.Type()) {
					tf = f
				}
			}
			if sf != nil && tf != nil {
				pairs[sf.Name()] = tf.Name()
				pairDesc = append(pairDesc, sf.Name()+"↔"+tf.Name())
			}
		})
	}
	sort.Strings(pairDesc)
	if len(pairs) < 2 {
		c.undecided("R-HEADER-SIDES", "mdiff reader:name/time pairs", 0, fmt.Sprintf("expected the reader to fill two (name, time) pairs of FileInfo from header lines, found %v", pairDesc))
		return
	}
	timeOf := map[string]bool{}
	for _, t := range pairs {
		timeOf[t] = true
	}
	// ---- writer calls
	var feeds func(v ssa.Value, out map[string]bool, depth int, seen map[ssa.Value]bool)
	feeds = func(v ssa.Value, out map[string]bool, depth int, seen map[ssa.Value]bool) {
		if v == nil || depth > 10 || seen[v] {
			return
		}
		seen[v] = true
		switch x := v.(type) {
		case *ssa.UnOp:
			if fa, ok := x.X.(*ssa.FieldAddr); ok && x.Op == token.MUL && isFI(fa.X.Type()) {
				_, f := fieldVarOf(fa)
				out[f.Name()] = true
				return
			}
			feeds(x.X, out, depth+1, seen)
		case *ssa.Field:
			if isFI(x.X.Type()) {
				if st, ok := x.X.Type().Underlying().(*types.Struct); ok {
					out[st.Field(x.Field).Name()] = true
				}
			}
		case *ssa.Call:
			for _, a := range x.Call.Args {
				feeds(a, out, depth+1, seen)
			}
		case *ssa.Slice:
			feeds(x.X, out, depth+1, seen)
		case *ssa.Alloc:
			for _, r := range referrersOf(x) {
				switch y := r.(type) {
				case *ssa.IndexAddr:
					for _, r2 := range referrersOf(y) {
						if st, ok := r2.(*ssa.Store); ok && st.Addr == ssa.Value(y) {
							feeds(st.Val, out, depth+1, seen)
						}
					}
				case *ssa.Store:
					if y.Addr == ssa.Value(x) {
						feeds(y.Val, out, depth+1, seen)
					}
				}
			}
		case *ssa.Phi:
			for _, e := range x.Edges {
				feeds(e, out, depth+1, seen)
			}
		case *ssa.MakeInterface:
			feeds(x.X, out, depth+1, seen)
		case *ssa.ChangeType:
			feeds(x.X, out, depth+1, seen)
		case *ssa.Convert:
			feeds(x.X, out, depth+1, seen)
		case *ssa.Extract:
			feeds(x.Tuple, out, depth+1, seen)
		}
	}
	for _, fn := range P.PkgFuncs("mdiff") {
		name := fnName(fn)
		n := 0
		allInstrs(fn, func(in ssa.Instruction) {
			call, ok := in.(*ssa.Call)
			if !ok || len(call.Call.Args) < 2 {
				return
			}
			if cal := staticCallee(&call.Call); cal != nil && origin(cal).Pkg != nil && origin(cal).Pkg.Pkg.Path() != "github.com/creachadair/mds/mdiff" {
				// a formatting call of the standard library (fmt.Fprintf) may be the header writer too
				if p := origin(cal).Pkg.Pkg.Path(); p != "fmt" && p != "io" {
					return
				}
			}
			var names, times []string
			for _, a := range call.Call.Args {
				fs := map[string]bool{}
				feeds(a, fs, 0, map[ssa.Value]bool{})
				for f := range fs {
					if _, isName := pairs[f]; isName {
						names = append(names, f)
					} else if timeOf[f] {
						times = append(times, f)
					}
				}
			}
			if len(names) != 1 || len(times) != 1 {
				return
			}
			n++
			c.sawFn(name)
			key := fmt.Sprintf("%s:header(%s, ·)", name, names[0])
			want := pairs[names[0]]
			c.judge(times[0] == want, "R-HEADER-SIDES", key, call.Pos(), "name ."+names[0]+" with time ."+times[0],
				fmt.Sprintf("the header line written for .%s carries the time .%s, but the reader fills .%s together with .%s: the timestamp of the other file is written (and read back) on this header", names[0], times[0], names[0], want))
		})
	}
}

// ruleLineExact: the readers must hand every line on exactly as it stands in
// the input except for the terminating "\n".  Payload lines of a diff may end
// in "\r" or be arbitrarily long; an API that normalises line endings or caps
// the line length changes what is read back.
func ruleLineExact(c *Ctx) {
	P := c.P
	c.rule("R-LINE-EXACT", 1, "the line source of the readers removes nothing but the final \"\\n\" (no bufio.Scanner/ScanLines/ReadLine, no TrimSpace/TrimRight, TrimSuffix only of \"\\n\")")
	// the line source: the functions of package mdiff that read from a bufio reader/scanner
	var srcs []*ssa.Function
	for _, fn := range P.PkgFuncs("mdiff") {
		hit := false
		allInstrs(fn, func(in ssa.Instruction) {
			if call, ok := in.(*ssa.Call); ok {
				if cal := staticCallee(&call.Call); cal != nil && origin(cal).Pkg != nil && origin(cal).Pkg.Pkg.Path() == "bufio" && origin(cal).Signature.Recv() != nil {
					switch origin(cal).Name() {
					case "ReadString", "ReadBytes", "ReadLine", "ReadSlice", "Scan", "Text", "Bytes", "ReadRune", "ReadByte":
						hit = true
					}
				}
			}
		})
		if hit {
			srcs = append(srcs, fn)
		}
	}
	if len(srcs) == 0 {
		c.undecided("R-LINE-EXACT", "mdiff reader:line source", 0, "no function of package mdiff reads lines through package bufio")
		return
	}
	customSplit := false
	for _, fn := range P.PkgFuncs("mdiff") {
		allInstrs(fn, func(in ssa.Instruction) {
			if call, ok := in.(*ssa.Call); ok {
				if cal := staticCallee(&call.Call); cal != nil && origin(cal).Pkg != nil && origin(cal).Pkg.Pkg.Path() == "bufio" && origin(cal).Name() == "Split" && len(call.Call.Args) == 2 {
					if f, ok := call.Call.Args[1].(*ssa.Function); !ok || origin(f).Pkg == nil || origin(f).Pkg.Pkg.Path() != "bufio" {
						customSplit = true
					}
				}
			}
		})
	}
	for _, fn := range srcs {
		name := fnName(fn)
		c.sawFn(name)
		var probs []string
		for _, g := range buildCallScope(fn).fns {
			allInstrs(g, func(in ssa.Instruction) {
				call, ok := in.(*ssa.Call)
				if !ok {
					return
				}
				cal := staticCallee(&call.Call)
				if cal == nil || origin(cal).Pkg == nil {
					return
				}
				p, n := origin(cal).Pkg.Pkg.Path(), origin(cal).Name()
				at := P.pos(call.Pos())
				switch {
				case p == "bufio" && (n == "Text" || n == "Bytes" || n == "Scan") && !customSplit:
					probs = append(probs, fmt.Sprintf("bufio.Scanner.%s at %s (the default ScanLines drops a trailing \\r and fails on lines over 64 KiB)", n, at))
				case p == "bufio" && n == "ReadLine":
					probs = append(probs, fmt.Sprintf("bufio.Reader.ReadLine at %s (drops \\r\\n and splits long lines)", at))
				case p == "strings" && (n == "TrimSpace" || n == "TrimRight" || n == "Trim" || n == "TrimRightFunc" || n == "TrimFunc"):
					probs = append(probs, fmt.Sprintf("strings.%s at %s (removes more than the line terminator)", n, at))
				case p == "strings" && n == "TrimSuffix" && len(call.Call.Args) == 2:
					if k, ok := call.Call.Args[1].(*ssa.Const); !ok || k.Value == nil || k.Value.Kind() != constant.String || constant.StringVal(k.Value) != "\n" {
						probs = append(probs, fmt.Sprintf("strings.TrimSuffix of something other than \"\\n\" at %s", at))
					}
				}
			})
		}
		c.judge(len(probs) == 0, "R-LINE-EXACT", name+":line terminator only", fn.Pos(), "only the final newline is removed", fmt.Sprintf("the line source alters payload bytes: %v", probs))
	}
}

// strConstsReaching collects the string constants that can flow into v:
// through φ, conversions, calls (any argument — an over-approximation that
// suits "is this constant handed on"), variadic backing arrays, element loads,
// and parameters (bound by bind for one particular call, otherwise by every
// call site inside sc).  Loads of struct fields are not followed.
func strConstsReaching(v ssa.Value, bind map[*ssa.Parameter]ssa.Value, sc *callScope) []string {
	out := map[string]bool{}
	seen := map[ssa.Value]bool{}
	var walk func(v ssa.Value, d int)
	walk = func(v ssa.Value, d int) {
		if v == nil || d > 14 || seen[v] {
			return
		}
		seen[v] = true
		switch x := v.(type) {
		case *ssa.Const:
			if x.Value != nil && x.Value.Kind() == constant.String {
				out[constant.StringVal(x.Value)] = true
			}
		case *ssa.Phi:
			for _, e := range x.Edges {
				walk(e, d+1)
			}
		case *ssa.Call:
			for _, a := range x.Call.Args {
				walk(a, d+1)
			}
		case *ssa.Extract:
			walk(x.Tuple, d+1)
		case *ssa.UnOp:
			if x.Op != token.MUL {
				walk(x.X, d+1)
				return
			}
			switch a := x.X.(type) {
			case *ssa.IndexAddr:
				walk(a.X, d+1)
			case *ssa.Alloc:
				walk(a, d+1)
			case *ssa.FieldAddr:
				// a field: not followed
			default:
				walk(x.X, d+1)
			}
		case *ssa.Alloc:
			for _, r := range referrersOf(x) {
				switch y := r.(type) {
				case *ssa.IndexAddr:
					for _, r2 := range referrersOf(y) {
						if st, ok := r2.(*ssa.Store); ok && st.Addr == ssa.Value(y) {
							walk(st.Val, d+1)
						}
					}
				case *ssa.Store:
					if y.Addr == ssa.Value(x) {
						walk(y.Val, d+1)
					}
				}
			}
		case *ssa.Slice:
			walk(x.X, d+1)
		case *ssa.IndexAddr:
			walk(x.X, d+1)
		case *ssa.Index:
			walk(x.X, d+1)
		case *ssa.Lookup:
			walk(x.X, d+1)
		case *ssa.MakeInterface:
			walk(x.X, d+1)
		case *ssa.ChangeType:
			walk(x.X, d+1)
		case *ssa.Convert:
			walk(x.X, d+1)
		case *ssa.Next:
			walk(x.Iter, d+1)
		case *ssa.Range:
			walk(x.X, d+1)
		case *ssa.Parameter:
			if a, ok := bind[x]; ok {
				walk(a, d+1)
				return
			}
			if sc != nil {
				for _, a := range sc.paramArgs(x) {
					walk(a, d+1)
				}
			}
		}
	}
	walk(v, 0)
	var res []string
	for s := range out {
		res = append(res, s)
	}
	sort.Strings(res)
	return res
}

// headerAgreement decides, from the SSA form, two writer/reader agreements for
// the unified format's file header: the prefix constant and the time layout,
// per side.  ok=false when the shapes are not recognised (the caller falls back
// to the syntactic rule).
type headerSide struct {
	name, time     string // FileInfo fields
	readerFn       string
	readerPos      token.Pos
	readerPrefixes []string
	readerLayouts  []string
	writerConsts   []string
	writerPos      token.Pos
	writerFound    bool
}

func headerAgreement(P *Prog) (sides []*headerSide, writerLayouts []string, wpos token.Pos, ok bool) {
	fiT := P.Named("mdiff", "FileInfo")
	unified := P.Func("mdiff", "", "Unified")
	if fiT == nil || unified == nil {
		return nil, nil, 0, false
	}
	isFI := func(t types.Type) bool {
		if p, ok := t.Underlying().(*types.Pointer); ok {
			t = p.Elem()
		}
		return isNamedOrigin(t, fiT)
	}
	isTime := func(t types.Type) bool {
		n, ok := t.(*types.Named)
		return ok && n.Obj().Pkg() != nil && n.Obj().Pkg().Path() == "time" && n.Obj().Name() == "Time"
	}
	storedField := func(v ssa.Value) *types.Var {
		for _, r := range referrersOf(v) {
			if st, ok := r.(*ssa.Store); ok && st.Val == v {
				if fa, ok := st.Addr.(*ssa.FieldAddr); ok && isFI(fa.X.Type()) {
					_, f := fieldVarOf(fa)
					return f
				}
			}
		}
		return nil
	}
	bySide := map[string]*headerSide{}
	for _, fn := range P.PkgFuncs("mdiff") {
		fn := fn
		allInstrs(fn, func(in ssa.Instruction) {
			call, isCall := in.(*ssa.Call)
			if !isCall {
				return
			}
			tup, isTup := call.Type().(*types.Tuple)
			if !isTup || tup.Len() != 2 {
				return
			}
			var sf, tf *types.Var
			for _, r := range referrersOf(call) {
				ex, isEx := r.(*ssa.Extract)
				if !isEx {
					continue
				}
				f := storedField(ex)
				if f == nil {
					continue
				}
				if b, isB := ex.Type().Underlying().(*types.Basic); isB && b.Kind() == types.String {
					sf = f
				} else if isTime(ex.Type()) {
					tf = f
				}
			}
			if sf == nil || tf == nil {
				return
			}
			hs := &headerSide{name: sf.Name(), time: tf.Name(), readerFn: fnName(fn), readerPos: call.Pos()}
			// what the reader cut off before parsing this side
			sc := buildCallScope(fn)
			for _, a := range call.Call.Args {
				hs.readerPrefixes = append(hs.readerPrefixes, strConstsReaching(a, nil, sc)...)
			}
			// the layouts the parser tries for this call
			if cal := staticCallee(&call.Call); cal != nil && origin(cal).Blocks != nil {
				o := origin(cal)
				bind := map[*ssa.Parameter]ssa.Value{}
				for i, p := range o.Params {
					if i < len(call.Call.Args) {
						bind[p] = call.Call.Args[i]
					}
				}
				for _, g := range buildCallScope(o).fns {
					allInstrs(g, func(in2 ssa.Instruction) {
						c2, isC := in2.(*ssa.Call)
						if !isC {
							return
						}
						if tc := staticCallee(&c2.Call); tc != nil && origin(tc).Pkg != nil && origin(tc).Pkg.Pkg.Path() == "time" && (origin(tc).Name() == "Parse" || origin(tc).Name() == "ParseInLocation") && len(c2.Call.Args) >= 2 {
							hs.readerLayouts = append(hs.readerLayouts, strConstsReaching(c2.Call.Args[0], bind, sc)...)
						}
					})
				}
			}
			// a layout handed to the parser is not something that was cut off the line
			var pfx []string
			for _, p := range hs.readerPrefixes {
				isLayout := false
				for _, l := range hs.readerLayouts {
					if l == p {
						isLayout = true
					}
				}
				if !isLayout {
					pfx = append(pfx, p)
				}
			}
			hs.readerPrefixes = pfx
			bySide[hs.name] = hs
		})
	}
	if len(bySide) != 2 {
		return nil, nil, 0, false
	}
	// writer
	var feedsField func(v ssa.Value, out map[string]bool, depth int, seen map[ssa.Value]bool)
	feedsField = func(v ssa.Value, out map[string]bool, depth int, seen map[ssa.Value]bool) {
		if v == nil || depth > 10 || seen[v] {
			return
		}
		seen[v] = true
		switch x := v.(type) {
		case *ssa.UnOp:
			if fa, ok := x.X.(*ssa.FieldAddr); ok && x.Op == token.MUL && isFI(fa.X.Type()) {
				_, f := fieldVarOf(fa)
				out[f.Name()] = true
				return
			}
			feedsField(x.X, out, depth+1, seen)
		case *ssa.Call:
			for _, a := range x.Call.Args {
				feedsField(a, out, depth+1, seen)
			}
		case *ssa.Slice:
			feedsField(x.X, out, depth+1, seen)
		case *ssa.Alloc:
			for _, r := range referrersOf(x) {
				if y, ok := r.(*ssa.IndexAddr); ok {
					for _, r2 := range referrersOf(y) {
						if st, ok := r2.(*ssa.Store); ok && st.Addr == ssa.Value(y) {
							feedsField(st.Val, out, depth+1, seen)
						}
					}
				}
			}
		case *ssa.Phi:
			for _, e := range x.Edges {
				feedsField(e, out, depth+1, seen)
			}
		case *ssa.MakeInterface:
			feedsField(x.X, out, depth+1, seen)
		case *ssa.ChangeType:
			feedsField(x.X, out, depth+1, seen)
		}
	}
	wsc := buildCallScope(unified)
	for _, g := range wsc.fns {
		allInstrs(g, func(in ssa.Instruction) {
			call, isCall := in.(*ssa.Call)
			if !isCall {
				return
			}
			if tc := staticCallee(&call.Call); tc != nil && origin(tc).Pkg != nil && origin(tc).Pkg.Pkg.Path() == "time" && origin(tc).Name() == "Format" && len(call.Call.Args) == 2 {
				writerLayouts = append(writerLayouts, strConstsReaching(call.Call.Args[1], nil, wsc)...)
				wpos = call.Pos()
			}
			if len(call.Call.Args) < 2 {
				return
			}
			fed := map[string]bool{}
			for _, a := range call.Call.Args {
				feedsField(a, fed, 0, map[ssa.Value]bool{})
			}
			var names []string
			for f := range fed {
				if _, isName := bySide[f]; isName {
					names = append(names, f)
				}
			}
			if len(names) != 1 {
				return
			}
			hs := bySide[names[0]]
			for _, a := range call.Call.Args {
				hs.writerConsts = append(hs.writerConsts, strConstsReaching(a, nil, wsc)...)
			}
			hs.writerFound, hs.writerPos = true, call.Pos()
		})
	}
	for _, hs := range bySide {
		if !hs.writerFound || len(hs.readerPrefixes) == 0 || len(hs.readerLayouts) == 0 {
			return nil, nil, 0, false
		}
		sides = append(sides, hs)
	}
	if len(writerLayouts) == 0 {
		return nil, nil, 0, false
	}
	sort.Slice(sides, func(i, j int) bool { return sides[i].readerPos < sides[j].readerPos })
	return sides, writerLayouts, wpos, true
}

// ruleSentinelComplete: the chunk reader reports a line that belongs to the next
// file of a git patch through a sentinel error which its caller tolerates
// (errors.Is(err, sentinel) → carry on with the next file).  On every return
// that carries that sentinel the chunk read so far must already have been
// recorded, exactly as on the successful return; otherwise the last hunk of
// every file but the last silently disappears.
func ruleSentinelComplete(c *Ctx) {
	P := c.P
	c.rule("R-SENTINEL-COMPLETE", 1, "a return carrying the tolerated sentinel error is preceded on all paths by the store that records the chunk")
	chunksF := P.Field("mdiff", "diffReader", "chunks")
	if chunksF == nil {
		for _, f := range P.FieldsDeep("mdiff", "diffReader") {
			if sl, ok := f.Type().Underlying().(*types.Slice); ok {
				if pt, ok := sl.Elem().Underlying().(*types.Pointer); ok && isNamedOrigin(pt.Elem(), P.Named("mdiff", "Chunk")) {
					chunksF = f
				}
			}
		}
	}
	if chunksF == nil {
		c.undecided("ANCHOR", "mdiff.diffReader chunk list", 0, "not found")
		return
	}
	// sentinels: package-level error variables tested with errors.Is somewhere in the package
	sentinels := map[*ssa.Global]bool{}
	for _, fn := range P.PkgFuncs("mdiff") {
		allInstrs(fn, func(in ssa.Instruction) {
			call, ok := in.(*ssa.Call)
			if !ok {
				return
			}
			if cal := staticCallee(&call.Call); cal == nil || origin(cal).Pkg == nil || origin(cal).Pkg.Pkg.Path() != "errors" || origin(cal).Name() != "Is" || len(call.Call.Args) != 2 {
				return
			}
			if ld, ok := call.Call.Args[1].(*ssa.UnOp); ok {
				if g, ok := ld.X.(*ssa.Global); ok {
					sentinels[g] = true
				}
			}
		})
	}
	n := 0
	for _, fn := range P.PkgFuncs("mdiff") {
		fn := fn
		// does fn record chunks at all?
		records := func(in ssa.Instruction) bool {
			st, ok := in.(*ssa.Store)
			if !ok {
				return false
			}
			fa, ok := st.Addr.(*ssa.FieldAddr)
			if !ok {
				return false
			}
			_, f := fieldVarOf(fa)
			return sameField(f, chunksF)
		}
		has := false
		allInstrs(fn, func(in ssa.Instruction) {
			if records(in) {
				has = true
			}
		})
		carries := func(v ssa.Value) bool {
			seen := map[ssa.Value]bool{}
			found := false
			var walk func(v ssa.Value, d int)
			walk = func(v ssa.Value, d int) {
				if v == nil || seen[v] || d > 8 || found {
					return
				}
				seen[v] = true
				switch x := v.(type) {
				case *ssa.UnOp:
					if g, ok := x.X.(*ssa.Global); ok && sentinels[g] {
						found = true
						return
					}
					walk(x.X, d+1)
				case *ssa.Call:
					for _, a := range x.Call.Args {
						walk(a, d+1)
					}
				case *ssa.MakeInterface:
					walk(x.X, d+1)
				case *ssa.ChangeInterface:
					walk(x.X, d+1)
				case *ssa.Slice:
					walk(x.X, d+1)
				case *ssa.Alloc:
					for _, r := range referrersOf(x) {
						if ia, ok := r.(*ssa.IndexAddr); ok {
							for _, r2 := range referrersOf(ia) {
								if st, ok := r2.(*ssa.Store); ok && st.Addr == ssa.Value(ia) {
									walk(st.Val, d+1)
								}
							}
						}
					}
				case *ssa.Phi:
					for _, e := range x.Edges {
						walk(e, d+1)
					}
				}
			}
			walk(v, 0)
			return found
		}
		allInstrs(fn, func(in ssa.Instruction) {
			ret, ok := in.(*ssa.Return)
			if !ok {
				return
			}
			for _, r := range ret.Results {
				if !carries(r) {
					continue
				}
				n++
				c.sawFn(fnName(fn))
				key := fmt.Sprintf("%s:sentinel return #%d", fnName(fn), n)
				if !has {
					c.ok("R-SENTINEL-COMPLETE", key, ret.Pos(), "the function records no chunks")
					continue
				}
				missing, wit := reachesWithout(P, firstInstr(fn), true, func(in2 ssa.Instruction) bool { return in2 == ssa.Instruction(ret) }, records)
				c.judge(!missing, "R-SENTINEL-COMPLETE", key, ret.Pos(), "the chunk is recorded before the tolerated error is returned", "this return reports the sentinel its caller treats as 'the next file begins' without having recorded the chunk read so far ("+wit+"): that hunk is dropped from the patch")
			}
		})
	}
}

// ruleTimeExact: the timestamp the header parser hands back is the value
// time.Parse produced: no conversion of zone or precision is applied to it
// (UTC, Local, In, Truncate, Round, Add), so a header read and written again
// reproduces its zone offset.
func ruleTimeExact(c *Ctx) {
	P := c.P
	c.rule("R-TIME-EXACT", 1, "the parsed header timestamp is returned as time.Parse produced it (no UTC/Local/In/Truncate/Round/Add)")
	n := 0
	for _, fn := range P.PkgFuncs("mdiff") {
		fn := fn
		parses := false
		allInstrs(fn, func(in ssa.Instruction) {
			if call, ok := in.(*ssa.Call); ok {
				if cal := staticCallee(&call.Call); cal != nil && origin(cal).Pkg != nil && origin(cal).Pkg.Pkg.Path() == "time" && (origin(cal).Name() == "Parse" || origin(cal).Name() == "ParseInLocation") {
					parses = true
				}
			}
		})
		if !parses {
			continue
		}
		n++
		c.sawFn(fnName(fn))
		var probs []string
		allInstrs(fn, func(in ssa.Instruction) {
			call, ok := in.(*ssa.Call)
			if !ok {
				return
			}
			cal := staticCallee(&call.Call)
			if cal == nil || origin(cal).Pkg == nil || origin(cal).Pkg.Pkg.Path() != "time" || origin(cal).Signature.Recv() == nil {
				return
			}
			switch origin(cal).Name() {
			case "UTC", "Local", "In", "Truncate", "Round", "Add", "AddDate":
				probs = append(probs, fmt.Sprintf("Time.%s at %s", origin(cal).Name(), P.pos(call.Pos())))
			}
		})
		c.judge(len(probs) == 0, "R-TIME-EXACT", fnName(fn)+":parsed time unchanged", fn.Pos(), "the result of time.Parse is handed on as it is", fmt.Sprintf("the parsed timestamp is converted before it is returned (%v): the zone offset or precision written in the header is lost, so reading and writing the header again changes it", probs))
	}
	if n == 0 {
		c.undecided("R-TIME-EXACT", "mdiff:time parser", 0, "no function of package mdiff calls time.Parse")
	}
}

// ruleFormatCursors: the formatters walk a chunk with a left and a right line
// counter that start at the chunk's LStart and RStart.  The left counter
// advances by the number of lines an edit has on the left (len(e.X)), the right
// counter by the number on the right (len(e.Y)) — except for a context edit,
// whose lines are held in X and count on both sides.  A counter advanced by the
// other side's length puts every later line number of the chunk off.
// ruleUnreadBeforeSentinel: the sentinel return of the chunk reader is preceded
// by the push-back of the foreign line, so the caller sees it again.
func ruleFormatCursors(c *Ctx) {
	P := c.P
	c.rule("R-CURSOR-SIDE", 2, "a formatter's left line counter advances by len(e.X), its right counter by len(e.Y) (len(e.X) only for context edits)")
	c.rule("R-UNREAD-FOREIGN", 1, "the chunk reader pushes the foreign line back before it reports the tolerated sentinel")
	opF := P.Field("slice", "Edit", "Op")
	for _, fn := range P.PkgFuncs("mdiff") {
		fn := fn
		// families: φ-webs seeded by loads of LStart / RStart
		fam := map[ssa.Value]string{}
		changed := true
		for changed {
			changed = false
			allInstrs(fn, func(in ssa.Instruction) {
				// a counter advanced twice in a row: the intermediate sum belongs to the family too
				if b0, ok := in.(*ssa.BinOp); ok && b0.Op == token.ADD && fam[b0] == "" && fam[b0.X] != "" {
					if _, isLen := isBuiltinCall(b0.Y, "len"); isLen {
						fam[b0] = fam[b0.X]
						changed = true
					}
					return
				}
				ph, ok := in.(*ssa.Phi)
				if !ok || !isIntType(ph.Type()) || fam[ph] != "" {
					return
				}
				for _, e := range ph.Edges {
					if _, f := loadedField(e); f != nil && (f.Name() == "LStart" || f.Name() == "RStart") {
						fam[ph] = f.Name()[:1]
						changed = true
						return
					}
					if fam[e] != "" {
						fam[ph] = fam[e]
						changed = true
						return
					}
					if bo, ok := e.(*ssa.BinOp); ok && bo.Op == token.ADD && fam[bo.X] != "" {
						fam[ph] = fam[bo.X]
						changed = true
						return
					}
				}
			})
		}
		if len(fam) == 0 {
			continue
		}
		// what is printed: a span helper (int, int) -> string is handed two positions of ONE side; a formatted command
		// line that names positions names the left side first and the right side last
		{
			var famOf func(v ssa.Value, d int) string
			famOf = func(v ssa.Value, d int) string {
				if d > 4 {
					return ""
				}
				if f := fam[v]; f != "" {
					return f
				}
				switch x := v.(type) {
				case *ssa.BinOp:
					if x.Op == token.ADD || x.Op == token.SUB {
						return famOf(x.X, d+1)
					}
				case *ssa.MakeInterface:
					return famOf(x.X, d+1)
				case *ssa.Call:
					if cal := staticCallee(&x.Call); cal != nil && cal.Pkg == fn.Pkg && len(x.Call.Args) == 2 && isIntType(x.Call.Args[0].Type()) && isIntType(x.Call.Args[1].Type()) {
						return famOf(x.Call.Args[0], d+1)
					}
				}
				return ""
			}
			k := 0
			allInstrs(fn, func(in ssa.Instruction) {
				call, ok := in.(*ssa.Call)
				if !ok {
					return
				}
				if cal := staticCallee(&call.Call); cal != nil && cal.Pkg == fn.Pkg && len(call.Call.Args) == 2 && isIntType(call.Call.Args[0].Type()) && isIntType(call.Call.Args[1].Type()) && isStringType(call.Type()) {
					a, b := famOf(call.Call.Args[0], 0), famOf(call.Call.Args[1], 0)
					if a != "" && b != "" {
						k++
						c.sawFn(fnName(fn))
						c.judge(a == b, "R-CURSOR-SIDE", fmt.Sprintf("%s:span %s(…) #%d", fnName(fn), cal.Name(), k), call.Pos(), "both ends of the span come from one side's counter", fmt.Sprintf("the two ends handed to %s come from the %s and the %s line counter: the span printed mixes the two files' line numbers", cal.Name(), map[string]string{"L": "left", "R": "right"}[a], map[string]string{"L": "left", "R": "right"}[b]))
					}
					return
				}
				sc := call.Call.StaticCallee()
				if sc == nil || sc.Pkg == nil || sc.Pkg.Pkg.Path() != "fmt" || sc.Name() != "Fprintf" || len(call.Call.Args) < 3 {
					return
				}
				// the variadic operands
				sl, ok := call.Call.Args[2].(*ssa.Slice)
				if !ok {
					return
				}
				al, ok := sl.X.(*ssa.Alloc)
				if !ok {
					return
				}
				type slot struct {
					i   int64
					fam string
				}
				var slots []slot
				for _, r := range referrersOf(al) {
					ia, ok := r.(*ssa.IndexAddr)
					if !ok {
						continue
					}
					idx, _ := constInt(ia.Index)
					for _, r2 := range referrersOf(ia) {
						if st, ok := r2.(*ssa.Store); ok && st.Addr == ssa.Value(ia) {
							if f := famOf(st.Val, 0); f != "" {
								slots = append(slots, slot{idx, f})
							}
						}
					}
				}
				if len(slots) < 2 {
					return
				}
				sort.Slice(slots, func(i, j int) bool { return slots[i].i < slots[j].i })
				k++
				var seq []string
				for _, sl := range slots {
					seq = append(seq, sl.fam)
				}
				c.sawFn(fnName(fn))
				c.judge(slots[0].fam == "L" && slots[len(slots)-1].fam == "R", "R-CURSOR-SIDE", fmt.Sprintf("%s:command line #%d names both sides", fnName(fn), k), call.Pos(), "left position first, right position last", fmt.Sprintf("the positions printed on this line come from the counters [%s]: a change command names the left file's lines first and the right file's last", strings.Join(seq, " ")))
			})
		}
		n := 0
		// per opcode: by how much each line counter has moved when control leaves the arm for that opcode — read
		// off the edges of the counters' φs (the merge after the switch, or the loop header), each edge belonging to
		// the arm whose block it comes from; the opcode of an arm is the fact `e.Op == K` that holds there
		{
			var decode func(v ssa.Value, d int) ([]string, bool)
			decode = func(v ssa.Value, d int) ([]string, bool) {
				if d > 6 {
					return nil, false
				}
				if _, isPhi := v.(*ssa.Phi); isPhi && fam[v] != "" {
					return nil, true
				}
				if b0, ok := v.(*ssa.BinOp); ok && b0.Op == token.ADD {
					if ln, ok := isBuiltinCall(b0.Y, "len"); ok {
						if _, f := loadedField(ln.Call.Args[0]); f != nil && (f.Name() == "X" || f.Name() == "Y") {
							rest, ok := decode(b0.X, d+1)
							if !ok {
								return nil, false
							}
							return append(rest, f.Name()), true
						}
					}
				}
				return nil, false
			}
			armOp := func(p *ssa.BasicBlock) (int64, bool) {
				if opF == nil {
					return 0, false
				}
				for _, cm := range cmpsAt(p) {
					if _, f2 := loadedField(cm.X); f2 != nil && sameField(f2, opF) && cm.Op == token.EQL {
						if kk, ok := constInt(cm.Y); ok {
							return kk, true
						}
					}
				}
				return 0, false
			}
			type armKey struct {
				op int64
			}
			got := map[int64]map[string]bool{}
			undec := map[int64]bool{}
			posOf := map[int64]token.Pos{}
			for v, fm := range fam {
				ph, ok := v.(*ssa.Phi)
				if !ok {
					continue
				}
				for i, e := range ph.Edges {
					p := ph.Block().Preds[i]
					op, known := armOp(p)
					if !known {
						continue
					}
					flds, ok := decode(e, 0)
					if !ok {
						undec[op] = true
						continue
					}
					if got[op] == nil {
						got[op] = map[string]bool{}
					}
					if len(flds) == 0 {
						got[op][fm+"+0"] = true
					}
					for j, f := range flds {
						got[op][fmt.Sprintf("%s+%s#%d", fm, f, j)] = true
					}
					if last := p.Instrs[len(p.Instrs)-1]; posOf[op] == token.NoPos {
						posOf[op] = instrPos(last)
					}
				}
			}
			want := map[int64][]string{'-': {"L+X", "R+0"}, '+': {"L+0", "R+Y"}, '!': {"L+X", "R+Y"}, '=': {"L+X", "R+X"}}
			var ops []int64
			for op := range got {
				ops = append(ops, op)
			}
			sort.Slice(ops, func(i, j int) bool { return ops[i] < ops[j] })
			for _, op := range ops {
				if undec[op] || want[op] == nil {
					continue
				}
				var g []string
				for k := range got[op] {
					if i := strings.Index(k, "#"); i >= 0 {
						if k[i:] == "#0" {
							g = append(g, k[:i])
						} else {
							g = append(g, k[:i]+" again")
						}
					} else {
						g = append(g, k)
					}
				}
				sort.Strings(g)
				// a family that never showed up on an edge of this arm did not move
				for _, fm := range []string{"L", "R"} {
					has := false
					for _, x := range g {
						if strings.HasPrefix(x, fm+"+") {
							has = true
						}
					}
					if !has {
						g = append(g, fm+"+0")
					}
				}
				sort.Strings(g)
				w := append([]string{}, want[op]...)
				sort.Strings(w)
				c.sawFn(fnName(fn))
				c.judge(strings.Join(g, ",") == strings.Join(w, ","), "R-CURSOR-SIDE", fmt.Sprintf("%s:%s arm advances", fnName(fn), opNames[op]), posOf[op], "advances "+strings.Join(w, ", "), fmt.Sprintf("when control leaves the arm for %s the line counters have moved by [%s] (L/R = left/right counter, X/Y = the edit's spans, 0 = not at all); an edit of this kind consumes [%s]: a counter is left behind, advanced twice, or advanced by a span this kind of edit does not have", opNames[op], strings.Join(g, ", "), strings.Join(w, ", ")))
			}
		}
		allInstrs(fn, func(in ssa.Instruction) {
			bo, ok := in.(*ssa.BinOp)
			if !ok || bo.Op != token.ADD || fam[bo.X] == "" {
				return
			}
			ln, ok := isBuiltinCall(bo.Y, "len")
			if !ok {
				return
			}
			eb, f := loadedField(ln.Call.Args[0])
			if f == nil || (f.Name() != "X" && f.Name() != "Y") {
				return
			}
			// only advances that flow back into the counter (not line numbers computed for printing)
			flows := false
			for _, r := range referrersOf(bo) {
				if ph, ok := r.(*ssa.Phi); ok && fam[ph] == fam[bo.X] {
					flows = true
				}
			}
			if !flows {
				return
			}
			n++
			c.sawFn(fnName(fn))
			want := map[string]string{"L": "X", "R": "Y"}[fam[bo.X]]
			okSide := f.Name() == want
			if !okSide && fam[bo.X] == "R" && f.Name() == "X" && opF != nil {
				// a context edit: known to be Emit here
				for _, cm := range cmpsAt(bo.Block()) {
					if b2, f2 := loadedField(cm.X); f2 != nil && sameField(f2, opF) && sym(b2) == sym(eb) && cm.Op == token.EQL && isConstInt(cm.Y, '=') {
						okSide = true
					}
				}
			}
			side := map[string]string{"L": "left", "R": "right"}[fam[bo.X]]
			c.judge(okSide, "R-CURSOR-SIDE", fmt.Sprintf("%s:%s counter += len(e.%s) #%d", fnName(fn), side, f.Name(), n), bo.Pos(), "advances by its own side's line count", fmt.Sprintf("the %s line counter is advanced by len(e.%s), the number of lines the edit has on the other side: every later line number in the chunk is off by the difference", side, f.Name()))
		})
	}
	// ---- R-UNREAD-FOREIGN
	savedF := P.Field("mdiff", "diffReader", "saved")
	sentinels := map[*ssa.Global]bool{}
	for _, fn := range P.PkgFuncs("mdiff") {
		allInstrs(fn, func(in ssa.Instruction) {
			if call, ok := in.(*ssa.Call); ok {
				if cal := staticCallee(&call.Call); cal != nil && origin(cal).Pkg != nil && origin(cal).Pkg.Pkg.Path() == "errors" && origin(cal).Name() == "Is" && len(call.Call.Args) == 2 {
					if ld, ok := call.Call.Args[1].(*ssa.UnOp); ok {
						if g, ok := ld.X.(*ssa.Global); ok {
							sentinels[g] = true
						}
					}
				}
			}
		})
	}
	// the push-back: a call of a function whose body stores the reader's look-ahead field
	pushesBack := func(in ssa.Instruction) bool {
		call, ok := in.(*ssa.Call)
		if !ok {
			return false
		}
		cal := origin(staticCallee(&call.Call))
		if cal == nil || cal.Blocks == nil {
			return false
		}
		hit := false
		// a method that stores its string parameter (or the cell holding it) into a field of its receiver
		if cal.Signature.Recv() != nil && len(cal.Params) >= 2 {
			allInstrs(cal, func(in2 ssa.Instruction) {
				st, ok := in2.(*ssa.Store)
				if !ok {
					return
				}
				fa, ok := st.Addr.(*ssa.FieldAddr)
				if !ok || !fromParam(fa.X, cal.Params[0]) {
					return
				}
				for _, p := range cal.Params[1:] {
					if b, ok := p.Type().Underlying().(*types.Basic); !ok || b.Kind() != types.String {
						continue
					}
					if st.Val == ssa.Value(p) {
						hit = true
					}
					if al, ok := st.Val.(*ssa.Alloc); ok {
						for _, r := range referrersOf(al) {
							if st2, ok := r.(*ssa.Store); ok && st2.Addr == ssa.Value(al) && st2.Val == ssa.Value(p) {
								hit = true
							}
						}
					}
				}
			})
		}
		if hit {
			return true
		}
		allInstrs(cal, func(in2 ssa.Instruction) {
			if st, ok := in2.(*ssa.Store); ok {
				if fa, ok := st.Addr.(*ssa.FieldAddr); ok {
					_, f := fieldVarOf(fa)
					if savedF != nil && sameField(f, savedF) && !isNilConst(st.Val) {
						hit = true
					}
					if savedF == nil && f != nil {
						if pt, ok := f.Type().Underlying().(*types.Pointer); ok {
							if b, ok := pt.Elem().Underlying().(*types.Basic); ok && b.Kind() == types.String && !isNilConst(st.Val) {
								hit = true
							}
						}
					}
				}
			}
		})
		return hit
	}
	n := 0
	for _, fn := range P.PkgFuncs("mdiff") {
		fn := fn
		allInstrs(fn, func(in ssa.Instruction) {
			ret, ok := in.(*ssa.Return)
			if !ok {
				return
			}
			for _, r := range ret.Results {
				if !carriesSentinel(r, sentinels) {
					continue
				}
				n++
				c.sawFn(fnName(fn))
				missing, wit := reachesWithout(P, firstInstr(fn), true, func(in2 ssa.Instruction) bool { return in2 == ssa.Instruction(ret) }, pushesBack)
				c.judge(!missing, "R-UNREAD-FOREIGN", fmt.Sprintf("%s:sentinel return #%d", fnName(fn), n), ret.Pos(), "the foreign line is pushed back first", "the line that does not belong to the chunk is consumed and not pushed back before the tolerated sentinel is reported ("+wit+"): the caller's scan for the next file header starts one line late and skips that file")
			}
		})
	}
}

// carriesSentinel: the error value v is fed by a load of one of the sentinel variables.
func carriesSentinel(v ssa.Value, sentinels map[*ssa.Global]bool) bool {
	seen := map[ssa.Value]bool{}
	found := false
	var walk func(v ssa.Value, d int)
	walk = func(v ssa.Value, d int) {
		if v == nil || seen[v] || d > 8 || found {
			return
		}
		seen[v] = true
		switch x := v.(type) {
		case *ssa.UnOp:
			if g, ok := x.X.(*ssa.Global); ok && sentinels[g] {
				found = true
				return
			}
			walk(x.X, d+1)
		case *ssa.Call:
			for _, a := range x.Call.Args {
				walk(a, d+1)
			}
		case *ssa.MakeInterface:
			walk(x.X, d+1)
		case *ssa.ChangeInterface:
			walk(x.X, d+1)
		case *ssa.Slice:
			walk(x.X, d+1)
		case *ssa.Alloc:
			for _, r := range referrersOf(x) {
				if ia, ok := r.(*ssa.IndexAddr); ok {
					for _, r2 := range referrersOf(ia) {
						if st, ok := r2.(*ssa.Store); ok && st.Addr == ssa.Value(ia) {
							walk(st.Val, d+1)
						}
					}
				}
			}
		case *ssa.Phi:
			for _, e := range x.Edges {
				walk(e, d+1)
			}
		}
	}
	walk(v, 0)
	return found
}
