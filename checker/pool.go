package main

// R-POOL-RESET — pooled objects are reset before use, returned to the pool on
// every exit, and nothing aliasing their memory escapes.

import (
	"fmt"

	"golang.org/x/tools/go/ssa"
)

func isPoolMethod(c *ssa.CallCommon, name string) bool {
	f := c.StaticCallee()
	return f != nil && f.Name() == name && f.Signature.Recv() != nil && f.Signature.Recv().Type().String() == "*sync.Pool"
}

// escapingMethods of pooled objects that hand out internal memory.
var aliasingMethods = map[string]bool{"Bytes": true, "AvailableBuffer": true, "Next": false, "UnreadByte": false}

// poolGetters: unexported helpers that take an object from a pool, reset it on
// every path and return it (getBuffer(), getScanner(r)); a call of one is a Get
// whose object arrives already reset.
func poolGetters(P *Prog, fns []*ssa.Function) map[*ssa.Function]bool {
	out := map[*ssa.Function]bool{}
	var pkg *ssa.Package
	for _, fn := range fns {
		if fn != nil {
			pkg = origin(fn).Pkg
		}
	}
	if pkg == nil {
		return out
	}
	for _, mem := range pkg.Members {
		g, ok := mem.(*ssa.Function)
		if !ok || g.Blocks == nil || g.Object() == nil || g.Object().Exported() {
			continue
		}
		var obj ssa.Value
		allInstrs(g, func(in ssa.Instruction) {
			if get, ok := in.(*ssa.Call); ok && isPoolMethod(&get.Call, "Get") {
				for _, r := range referrersOf(get) {
					if ta, ok := r.(*ssa.TypeAssert); ok && !ta.CommaOk {
						obj = ta
					}
				}
			}
		})
		if obj == nil {
			continue
		}
		okUses := true
		var resets []ssa.Instruction
		for _, r := range referrersOf(obj) {
			switch x := r.(type) {
			case *ssa.Return, *ssa.DebugRef:
			case ssa.CallInstruction:
				cal := x.Common().StaticCallee()
				if cal != nil && cal.Name() == "Reset" && len(x.Common().Args) > 0 && x.Common().Args[0] == obj {
					resets = append(resets, r)
				} else {
					okUses = false
				}
			default:
				okUses = false
			}
		}
		if !okUses || len(resets) == 0 {
			continue
		}
		allRet := true
		allInstrs(g, func(in ssa.Instruction) {
			if ret, ok := in.(*ssa.Return); ok {
				if len(ret.Results) != 1 || ret.Results[0] != obj {
					allRet = false
				}
			}
		})
		isReset := func(in ssa.Instruction) bool {
			for _, r := range resets {
				if r == in {
					return true
				}
			}
			return false
		}
		missing, _ := reachesWithout(P, firstInstr(g), true, isReturn, isReset)
		if allRet && !missing {
			out[g] = true
		}
	}
	return out
}

func rulePoolReset(c *Ctx, fns []*ssa.Function) {
	getters := poolGetters(c.P, fns)
	for _, fn := range fns {
		if fn == nil {
			c.undecided("ANCHOR", "pool user", 0, "function not found")
			continue
		}
		name := fnName(fn)
		c.sawFn(name)
		allInstrs(fn, func(in ssa.Instruction) {
			get, ok := in.(*ssa.Call)
			if !ok {
				return
			}
			viaGetter := false
			if cal := staticCallee(&get.Call); cal != nil && getters[origin(cal)] {
				viaGetter = true
			}
			if !viaGetter && !isPoolMethod(&get.Call, "Get") {
				return
			}
			key := name + ":pool.Get"
			// the object: typeassert of the result
			var obj ssa.Value
			if viaGetter {
				obj = get // the helper's result: already type-asserted and reset
			}
			for _, r := range referrersOf(get) {
				if ta, ok := r.(*ssa.TypeAssert); ok && !ta.CommaOk && !viaGetter {
					obj = ta
				}
			}
			if obj == nil {
				c.undecided("R-POOL-RESET", key, get.Pos(), "result of Get is not type-asserted to a concrete object")
				return
			}
			// classify uses of obj
			var putDefer ssa.Instruction
			var problems []string
			uses := map[ssa.Instruction]string{}
			for _, r := range referrersOf(obj) {
				switch x := r.(type) {
				case *ssa.MakeInterface:
					for _, r2 := range referrersOf(x) {
						if d, ok := r2.(*ssa.Defer); ok && isPoolMethod(&d.Call, "Put") {
							putDefer = d
						} else if cl, ok := r2.(*ssa.Call); ok && isPoolMethod(&cl.Call, "Put") {
							uses[cl] = "Put"
						} else {
							problems = append(problems, "pooled object converted to an interface and used by "+r2.String())
						}
					}
				case ssa.CallInstruction:
					cal := x.Common().StaticCallee()
					if cal == nil {
						problems = append(problems, "pooled object passed to a dynamic call")
						continue
					}
					if len(x.Common().Args) > 0 && x.Common().Args[0] == obj && cal.Signature.Recv() != nil {
						uses[r] = cal.Name()
						if aliasingMethods[cal.Name()] {
							problems = append(problems, "method "+cal.Name()+" hands out the pooled object's internal memory")
						}
					} else {
						// passed as an argument to a repository function: its uses of the parameter must be plain method calls
						uses[r] = "arg:" + cal.Name()
						if cal.Blocks == nil {
							problems = append(problems, "pooled object passed to external function "+cal.Name())
							continue
						}
						for i, a := range x.Common().Args {
							if a != obj {
								continue
							}
							// a releasing helper (finish(buf): defer pool.Put(buf); return buf.String()): it puts the
							// object back — deferred, or as its last use — so the call is this function's Put
							param := origin(cal).Params[i]
							var putIn ssa.Instruction
							putDeferred := false
							for _, pr := range referrersOf(param) {
								if mi, ok := pr.(*ssa.MakeInterface); ok {
									for _, r2 := range referrersOf(mi) {
										if d, ok := r2.(*ssa.Defer); ok && isPoolMethod(&d.Call, "Put") {
											putIn, putDeferred = d, true
										} else if cl, ok := r2.(*ssa.Call); ok && isPoolMethod(&cl.Call, "Put") {
											putIn = cl
										}
									}
								}
							}
							if putIn != nil {
								late := ""
								for _, pr := range referrersOf(param) {
									ci, ok := pr.(ssa.CallInstruction)
									if !ok {
										continue
									}
									if m := ci.Common().StaticCallee(); m == nil || aliasingMethods[m.Name()] {
										problems = append(problems, "callee "+cal.Name()+" takes internal memory of the pooled object")
									}
									if !putDeferred {
										if after, _ := reachesWithout(c.P, putIn, false, func(in ssa.Instruction) bool { return in == ssa.Instruction(ci) }, func(ssa.Instruction) bool { return false }); after {
											late = c.P.pos(instrPos(ci))
										}
									}
								}
								if late != "" {
									problems = append(problems, fmt.Sprintf("callee %s puts the object back into the pool and uses it afterwards (at %s): another goroutine can take it from the pool and overwrite it before this one has copied its result out", cal.Name(), late))
								}
								if missing, _ := reachesWithout(c.P, firstInstr(origin(cal)), true, isReturn, func(in ssa.Instruction) bool { return in == putIn }); missing {
									problems = append(problems, "callee "+cal.Name()+" does not put the object back on every path")
								}
								uses[r] = "Put"
								continue
							}
							for _, pr := range referrersOf(origin(cal).Params[i]) {
								ci, ok := pr.(ssa.CallInstruction)
								if !ok {
									if _, isDbg := pr.(*ssa.DebugRef); !isDbg {
										problems = append(problems, fmt.Sprintf("callee %s uses the pooled object other than by a method call (%T)", cal.Name(), pr))
									}
									continue
								}
								m := ci.Common().StaticCallee()
								if m == nil || aliasingMethods[m.Name()] {
									problems = append(problems, "callee "+cal.Name()+" takes internal memory of the pooled object")
								}
							}
						}
					}
				case *ssa.DebugRef:
				default:
					problems = append(problems, fmt.Sprintf("pooled object escapes through %T (%s)", r, r.String()))
				}
			}
			// Put on all exits
			if putDefer == nil {
				ok, wit := mustPassToExit(c.P, get, func(in ssa.Instruction) bool { return uses[in] == "Put" })
				if !ok {
					problems = append(problems, "object is not returned to the pool on every exit ("+wit+")")
				}
			} else if !dominatesInstr(get, putDefer) {
				problems = append(problems, "deferred Put does not follow Get")
			}
			// no use after the object went back to the pool: an immediate Put (a dropped `defer`) hands the
			// object to the next caller while this one is still working with it
			for putIn, u := range uses {
				if u != "Put" {
					continue
				}
				for useIn, u2 := range uses {
					if u2 == "Put" || useIn == putIn {
						continue
					}
					if later, _ := reachesWithout(c.P, putIn, false, func(in ssa.Instruction) bool { return in == useIn }, func(ssa.Instruction) bool { return false }); later {
						problems = append(problems, fmt.Sprintf("the object is used (%s at %s) after it was put back into the pool at %s: another goroutine can take it from the pool and use it at the same time", u2, c.P.pos(instrPos(useIn)), c.P.pos(instrPos(putIn))))
					}
				}
			}
			// Reset before any other use
			isReset := func(in ssa.Instruction) bool { return uses[in] == "Reset" }
			found, wit := reachesWithout(c.P, get, false, func(in ssa.Instruction) bool {
				u, ok := uses[in]
				return ok && u != "Reset" && u != "Put"
			}, isReset)
			if found && !viaGetter {
				problems = append(problems, "pooled object is used before Reset on some path ("+wit+")")
			}
			if len(problems) == 0 {
				c.ok("R-POOL-RESET", key, get.Pos(), fmt.Sprintf("Reset first, Put on exit, %d uses, none aliasing", len(uses)))
			} else {
				c.bad("R-POOL-RESET", key, get.Pos(), fmt.Sprint(problems))
			}
		})
	}
}
