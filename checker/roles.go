package main

// Role-based anchor resolution: private identifiers (fields, helper types) are
// found by their type and use, not by name, so that renaming them does not
// break a check.  Exported API names stay the anchors.

import (
	"go/token"
	"go/types"

	"golang.org/x/tools/go/ssa"
)

// structFields returns the fields of a named struct type.
func structFields(n *types.Named) []*types.Var {
	st, ok := n.Underlying().(*types.Struct)
	if !ok {
		return nil
	}
	var out []*types.Var
	for i := 0; i < st.NumFields(); i++ {
		out = append(out, st.Field(i))
	}
	return out
}

func namedOf(t types.Type) *types.Named {
	for i := 0; i < 3; i++ {
		switch x := t.(type) {
		case *types.Pointer:
			t = x.Elem()
		case *types.Alias:
			t = types.Unalias(x)
		case *types.Named:
			return x
		default:
			return nil
		}
	}
	return nil
}

// ---- cache / LRU

type lruRoles struct {
	storeT               *types.Named // the Store implementation allocated by LRU()
	lruFn                *ssa.Function
	presentF, accessF    *types.Var // map index, *heapq.Queue
	clockF               *types.Var // integer logical clock
	elemT                *types.Named
	stampF               *types.Var // element field the heap orders by
	check, access, store *ssa.Function
	remove, evict        *ssa.Function
}

func resolveLRU(P *Prog) *lruRoles {
	r := &lruRoles{}
	r.lruFn = P.Func("cache", "", "LRU")
	if r.lruFn == nil {
		return nil
	}
	// the store type: the heap allocation in LRU whose pointer is converted to the Store interface
	allInstrs(r.lruFn, func(in ssa.Instruction) {
		if mi, ok := in.(*ssa.MakeInterface); ok {
			if n := namedOf(mi.X.Type()); n != nil && n.Obj().Pkg() != nil && n.Obj().Pkg().Name() == "cache" {
				if _, isStruct := n.Underlying().(*types.Struct); isStruct {
					r.storeT = n.Origin()
				}
			}
		}
	})
	if r.storeT == nil {
		return nil
	}
	for _, f := range structFields(r.storeT) {
		switch t := f.Type().Underlying().(type) {
		case *types.Map:
			r.presentF = f
		case *types.Pointer:
			if n := namedOf(t); n != nil && n.Obj().Name() == "Queue" && n.Obj().Pkg() != nil && n.Obj().Pkg().Name() == "heapq" {
				r.accessF = f
				if n.TypeArgs() != nil && n.TypeArgs().Len() == 1 {
					r.elemT = namedOf(n.TypeArgs().At(0))
					if r.elemT != nil {
						r.elemT = r.elemT.Origin()
					}
				}
			}
		case *types.Basic:
			if t.Info()&types.IsInteger != 0 {
				r.clockF = f
			}
		}
	}
	if r.presentF == nil || r.accessF == nil || r.clockF == nil || r.elemT == nil {
		return nil
	}
	// the ordering field: the element field read by the comparison function given to heapq.New in LRU
	var cmpFn *ssa.Function
	allInstrs(r.lruFn, func(in ssa.Instruction) {
		call, ok := in.(*ssa.Call)
		if !ok {
			return
		}
		cal := call.Call.StaticCallee()
		if cal == nil || origin(cal).Name() != "New" || origin(cal).Pkg == nil || origin(cal).Pkg.Pkg.Name() != "heapq" {
			return
		}
		switch a := call.Call.Args[0].(type) {
		case *ssa.Function:
			cmpFn = origin(a)
		case *ssa.MakeClosure:
			cmpFn = a.Fn.(*ssa.Function)
		case *ssa.ChangeType:
			if f, ok := a.X.(*ssa.Function); ok {
				cmpFn = origin(f)
			}
		}
	})
	if cmpFn != nil && cmpFn.Blocks != nil {
		allInstrs(cmpFn, func(in ssa.Instruction) {
			var f *types.Var
			switch x := in.(type) {
			case *ssa.Field:
				_, f = fieldVarOf(x)
			case *ssa.FieldAddr:
				_, f = fieldVarOf(x)
			}
			if f != nil && r.stampF == nil {
				if bt, ok := f.Type().Underlying().(*types.Basic); ok && bt.Info()&types.IsInteger != 0 {
					r.stampF = f
				}
			}
		})
	}
	if r.stampF == nil {
		// fall back: the integer field of the element type
		for _, f := range structFields(r.elemT) {
			if bt, ok := f.Type().Underlying().(*types.Basic); ok && bt.Info()&types.IsInteger != 0 && r.stampF == nil {
				r.stampF = f
			}
		}
	}
	name := r.storeT.Obj().Name()
	r.check, r.access, r.store = P.Func("cache", name, "Check"), P.Func("cache", name, "Access"), P.Func("cache", name, "Store")
	r.remove, r.evict = P.Func("cache", name, "Remove"), P.Func("cache", name, "Evict")
	if r.stampF == nil || r.check == nil || r.access == nil || r.store == nil || r.remove == nil || r.evict == nil {
		return nil
	}
	return r
}

// ---- queue.Queue

// resolveQueueFields: vs = the slice field; n = the int field compared with
// len(vs); head = the other int field.
func resolveQueueFields(P *Prog) (vs, head, n *types.Var) {
	qt := P.Named("queue", "Queue")
	if qt == nil {
		return
	}
	var ints []*types.Var
	for _, f := range structFields(qt) {
		switch t := f.Type().Underlying().(type) {
		case *types.Slice:
			vs = f
		case *types.Basic:
			if t.Info()&types.IsInteger != 0 {
				ints = append(ints, f)
			}
		}
	}
	if vs == nil || len(ints) != 2 {
		return nil, nil, nil
	}
	for _, fn := range P.Methods("queue", "Queue") {
		allInstrs(fn, func(in ssa.Instruction) {
			bo, ok := in.(*ssa.BinOp)
			if !ok || (bo.Op != token.LSS && bo.Op != token.GEQ && bo.Op != token.EQL) {
				return
			}
			_, f := loadedField(bo.X)
			ln, isLen := isBuiltinCall(bo.Y, "len")
			if f == nil || !isLen {
				return
			}
			if _, g := loadedField(ln.Call.Args[0]); g != nil && sameField(g, vs) {
				for _, cand := range ints {
					if sameField(cand, f) && n == nil {
						n = cand
					}
				}
			}
		})
	}
	if n == nil {
		// … or the integer field the container's own Len method returns
		if lf := P.Func("queue", "Queue", "Len"); lf != nil && len(lf.Blocks) == 1 {
			if ret, ok := lf.Blocks[0].Instrs[len(lf.Blocks[0].Instrs)-1].(*ssa.Return); ok && len(ret.Results) == 1 {
				if _, f := loadedField(ret.Results[0]); f != nil {
					for _, cand := range ints {
						if sameField(cand, f) {
							n = cand
						}
					}
				}
			}
		}
	}
	if n == nil {
		return nil, nil, nil
	}
	for _, cand := range ints {
		if !sameField(cand, n) {
			head = cand
		}
	}
	return
}

// ---- distinct.Counter

func resolveCounterFields(P *Prog) (buf, capF, p *types.Var) {
	ct := P.Named("distinct", "Counter")
	if ct == nil {
		return
	}
	for _, f := range structFields(ct) {
		if n := namedOf(f.Type()); n != nil && n.Obj().Name() == "Set" && n.Obj().Pkg() != nil && n.Obj().Pkg().Name() == "mapset" {
			buf = f
			continue
		}
		if _, isMap := f.Type().Underlying().(*types.Map); isMap && buf == nil {
			buf = f // the buffer kept as a plain map
			continue
		}
		if bt, ok := f.Type().Underlying().(*types.Basic); ok {
			switch bt.Kind() {
			case types.Int:
				capF = f
			case types.Uint64:
				p = f
			}
		}
	}
	return
}

// ---- cache.Cache

// resolveCacheFields: sizeOf = the func field returning int64; onEvict = the
// func field without result; count = the int field; limit = the int64 field
// compared with a sizeOf result in Put; size = the other int64 field.
func resolveCacheFields(P *Prog) (size, limit, count, sizeOf, onEvict *types.Var) {
	ct := P.Named("cache", "Cache")
	if ct == nil {
		return
	}
	var i64 []*types.Var
	for _, f := range P.FieldsDeep("cache", "Cache") {
		switch t := f.Type().Underlying().(type) {
		case *types.Signature:
			if t.Results().Len() == 1 {
				sizeOf = f
			} else if t.Results().Len() == 0 {
				onEvict = f
			}
		case *types.Basic:
			switch t.Kind() {
			case types.Int:
				count = f
			case types.Int64:
				i64 = append(i64, f)
			}
		}
	}
	if len(i64) != 2 || sizeOf == nil {
		return nil, nil, nil, nil, nil
	}
	// limit: never stored outside the constructor's fresh allocation
	stored := map[*types.Var]bool{}
	for _, top := range P.Methods("cache", "Cache") {
		for _, fn := range withClosures(top) {
			allInstrs(fn, func(in ssa.Instruction) {
				if st, ok := in.(*ssa.Store); ok {
					if fa, ok := st.Addr.(*ssa.FieldAddr); ok {
						if _, f := fieldVarOf(fa); f != nil {
							stored[f.Origin()] = true
						}
					}
				}
			})
		}
	}
	for _, f := range i64 {
		if stored[f.Origin()] {
			size = f
		} else {
			limit = f
		}
	}
	if size == nil || limit == nil {
		return nil, nil, nil, nil, nil
	}
	return
}

// fieldByType: the field of pkg.typ named `name`, or — when private fields were renamed — its only field whose
// type is a pointer to the named type tpkg.tname.
func (P *Prog) fieldByType(pkg, typ, name, tpkg, tname string) *types.Var {
	if f := P.Field(pkg, typ, name); f != nil {
		return f
	}
	n := P.Named(pkg, typ)
	if n == nil {
		return nil
	}
	var found *types.Var
	cnt := 0
	for _, f := range structFields(n) {
		p, ok := f.Type().Underlying().(*types.Pointer)
		if !ok {
			continue
		}
		nn := namedOf(p.Elem())
		if nn != nil && nn.Obj().Name() == tname && nn.Obj().Pkg() != nil && nn.Obj().Pkg().Name() == tpkg {
			found = f
			cnt++
		}
	}
	if cnt == 1 {
		return found
	}
	return nil
}

// streeRebuild: the in-place rebuild of a subtree ("rewrite"), by name or by role: the package-level function from
// *node to *node that methods of Tree call directly both on the insertion side and on the removal side.
func streeRebuild(P *Prog) *ssa.Function {
	if fn := P.Func("stree", "", "rewrite"); fn != nil {
		return fn
	}
	ins, rem := P.Func("stree", "Tree", "insert"), P.Func("stree", "Tree", "Remove")
	nodeT, treeT := P.Named("stree", "node"), P.Named("stree", "Tree")
	if ins == nil || rem == nil || nodeT == nil || treeT == nil {
		return nil
	}
	direct := func(root *ssa.Function) map[*ssa.Function]bool {
		out := map[*ssa.Function]bool{}
		for _, f := range buildCallScope(root).fns {
			if f.Signature.Recv() == nil || !isNamedOrigin(f.Signature.Recv().Type(), treeT) {
				if f.Parent() == nil {
					continue
				}
			}
			allInstrs(f, func(in ssa.Instruction) {
				call, ok := in.(*ssa.Call)
				if !ok {
					return
				}
				cal := origin(staticCallee(&call.Call))
				if cal == nil || cal.Blocks == nil || cal.Pkg != root.Pkg || cal.Signature.Recv() != nil || cal.Signature.Results().Len() != 1 || cal.Signature.Params().Len() < 1 {
					return
				}
				if isNamedOrigin(cal.Signature.Results().At(0).Type(), nodeT) && isNamedOrigin(cal.Signature.Params().At(0).Type(), nodeT) {
					out[cal] = true
				}
			})
		}
		return out
	}
	a, b := direct(ins), direct(rem)
	var found *ssa.Function
	n := 0
	for f := range a {
		if b[f] {
			found = f
			n++
		}
	}
	if n == 1 {
		return found
	}
	return nil
}
