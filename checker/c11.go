package main

// C11 — slice.EditScript: R-EDIT-SPAN, R-EDIT-OPTABLE, R-OP-EXHAUSTIVE.
// C13 — mdiff chunks: R-EDITS-WRITERS, R-CONTEXT-FRESH, R-LR-MIRROR.

import (
	"fmt"
	"go/ast"
	"go/constant"
	"go/token"
	"go/types"
	"sort"
	"strings"

	"golang.org/x/tools/go/ssa"
)

func init() {
	register(&propDef{ID: "C11", Level: "other", Run: runC11})
	register(&propDef{ID: "C13", Level: "other", Run: runC13})
}

type editLit struct {
	alloc *ssa.Alloc
	fn    *ssa.Function
	op    ssa.Value            // value stored to Op (may be nil: zero)
	set   map[string]ssa.Value // "X"/"Y" -> stored value
	pos   token.Pos
	blk   *ssa.BasicBlock // block of the field stores
}

func isEditType(t types.Type) bool {
	if p, ok := t.Underlying().(*types.Pointer); ok {
		t = p.Elem()
	}
	if p, ok := t.(*types.Pointer); ok {
		t = p.Elem()
	}
	if a, ok := t.(*types.Alias); ok {
		t = types.Unalias(a)
	}
	n, ok := t.(*types.Named)
	return ok && n.Origin().Obj().Name() == "Edit" && n.Obj().Pkg() != nil && n.Obj().Pkg().Name() == "slice"
}

// editLiterals finds composite literals of type slice.Edit in fn: a local
// "complit" allocation, or an element of a slice/array literal initialised in place.
func editLiterals(fn *ssa.Function) []editLit {
	var out []editLit
	collect := func(base ssa.Value, pos token.Pos) {
		l := editLit{fn: fn, set: map[string]ssa.Value{}, pos: pos}
		if al, ok := base.(*ssa.Alloc); ok {
			l.alloc = al
		}
		n := 0
		for _, r := range referrersOf(base) {
			fa, ok := r.(*ssa.FieldAddr)
			if !ok {
				continue
			}
			_, f := fieldVarOf(fa)
			for _, r2 := range referrersOf(fa) {
				if st, ok := r2.(*ssa.Store); ok && st.Addr == ssa.Value(fa) {
					n++
					if f.Name() == "Op" {
						l.op = st.Val
					} else {
						l.set[f.Name()] = st.Val
					}
					if st.Pos().IsValid() {
						l.pos = st.Pos()
					}
					l.blk = st.Block()
				}
			}
		}
		if n > 0 || l.alloc != nil {
			out = append(out, l)
		}
	}
	allInstrs(fn, func(in ssa.Instruction) {
		switch x := in.(type) {
		case *ssa.Alloc:
			if x.Comment == "complit" && isEditType(x.Type()) {
				collect(x, x.Pos())
			}
		case *ssa.IndexAddr:
			if al, ok := x.X.(*ssa.Alloc); ok && (al.Comment == "slicelit" || al.Comment == "arraylit") && isEditType(x.Type()) {
				collect(x, x.Pos())
			}
		}
	})
	return out
}

var opFields = map[int64][]string{'-': {"X"}, '=': {"X"}, '+': {"Y"}, '!': {"X", "Y"}}
var opNames = map[int64]string{'-': "OpDrop", '=': "OpEmit", '+': "OpCopy", '!': "OpReplace"}

// ruleOpTable: every Edit literal with a constant Op sets exactly the fields the documentation assigns to that Op.
func ruleOpTable(c *Ctx, pkgs ...string) {
	for _, pk := range pkgs {
		for _, fn := range c.P.PkgFuncs(pk) {
			for _, l := range editLiterals(fn) {
				if l.op == nil {
					continue
				}
				k, ok := constInt(l.op)
				if !ok {
					continue // op decided at run time (reader); covered by the exhaustive consumers
				}
				c.sawFn(fnName(fn))
				want, known := opFields[k]
				key := fmt.Sprintf("%s:Edit{%s}", fnName(fn), opNames[k])
				if !known {
					c.bad("R-EDIT-OPTABLE", key, l.pos, fmt.Sprintf("edit built with undeclared opcode %q", rune(k)))
					continue
				}
				var got []string
				for f := range l.set {
					got = append(got, f)
				}
				sort.Strings(got)
				c.judge(strings.Join(got, ",") == strings.Join(want, ","), "R-EDIT-OPTABLE", key, l.pos, "fields {"+strings.Join(got, ",")+"}", fmt.Sprintf("an %s edit sets fields {%s}; the documentation of Edit assigns it {%s}", opNames[k], strings.Join(got, ","), strings.Join(want, ",")))
			}
		}
	}
}

// ruleOpExhaustive: AST rule on every switch over slice.EditOp.
func ruleOpExhaustive(c *Ctx, pkgs ...string) {
	for _, pk := range pkgs {
		p := c.P.Pkgs[pk]
		if p == nil {
			c.undecided("ANCHOR", "package "+pk, 0, "not found")
			continue
		}
		for _, file := range p.Syntax {
			if strings.HasSuffix(c.P.Fset.Position(file.Pos()).Filename, canaryFile) {
				continue
			}
			var fnStack []string
			var curFd *ast.FuncDecl
			// statement lists, to find what precedes a switch in its block
			blockOf := map[ast.Stmt][]ast.Stmt{}
			ast.Inspect(file, func(n ast.Node) bool {
				var list []ast.Stmt
				switch b := n.(type) {
				case *ast.BlockStmt:
					list = b.List
				case *ast.CaseClause:
					list = b.Body
				}
				for _, st := range list {
					blockOf[st] = list
				}
				return true
			})
			ast.Inspect(file, func(n ast.Node) bool {
				if fd, ok := n.(*ast.FuncDecl); ok {
					curFd = fd
					fnStack = []string{fd.Name.Name}
					if fd.Recv != nil && len(fd.Recv.List) == 1 {
						fnStack = []string{recvTypeName(fd.Recv.List[0].Type) + "." + fd.Name.Name}
					}
				}
				sw, ok := n.(*ast.SwitchStmt)
				if !ok || sw.Tag == nil {
					return true
				}
				tv, ok := p.TypesInfo.Types[sw.Tag]
				if !ok {
					return true
				}
				nt, ok := tv.Type.(*types.Named)
				if !ok || nt.Obj().Name() != "EditOp" {
					return true
				}
				fname := pk + "." + strings.Join(fnStack, "")
				covered := map[int64]bool{}
				var paramCase *ast.Ident
				contextHelper := false
				hasStrictDefault := false
				hasDefault := false
				for _, s := range sw.Body.List {
					cc := s.(*ast.CaseClause)
					if cc.List == nil {
						hasDefault = true
						// default arm must panic or return a non-nil error
						ast.Inspect(cc, func(m ast.Node) bool {
							if call, ok := m.(*ast.CallExpr); ok {
								if id, ok := call.Fun.(*ast.Ident); ok && id.Name == "panic" {
									hasStrictDefault = true
								}
							}
							if ret, ok := m.(*ast.ReturnStmt); ok {
								for _, r := range ret.Results {
									if call, ok := r.(*ast.CallExpr); ok {
										if sel, ok := call.Fun.(*ast.SelectorExpr); ok && (sel.Sel.Name == "Errorf" || sel.Sel.Name == "New") {
											hasStrictDefault = true
										}
									}
								}
							}
							return true
						})
						continue
					}
					for _, e := range cc.List {
						if v, ok := constIntOf(p.TypesInfo, e); ok {
							covered[v] = true
						} else if id, ok := e.(*ast.Ident); ok {
							paramCase = id
						}
					}
				}
				// an opcode dealt with by a guard in front of the switch: `if tag == OpX { …; continue }`
				tagStr := types.ExprString(sw.Tag)
				for _, st := range blockOf[sw] {
					if st == ast.Stmt(sw) {
						break
					}
					ifs, ok := st.(*ast.IfStmt)
					if !ok || ifs.Else != nil || len(ifs.Body.List) == 0 {
						continue
					}
					be, ok := ifs.Cond.(*ast.BinaryExpr)
					if !ok || be.Op != token.EQL || types.ExprString(be.X) != tagStr {
						continue
					}
					v, ok := constIntOf(p.TypesInfo, be.Y)
					if !ok {
						continue
					}
					switch last := ifs.Body.List[len(ifs.Body.List)-1].(type) {
					case *ast.BranchStmt:
						if last.Tok == token.CONTINUE || last.Tok == token.BREAK {
							covered[v] = true
						}
					case *ast.ReturnStmt:
						covered[v] = true
					}
				}
				// a case that is a parameter of the enclosing function: the opcodes its callers pass
				if paramCase != nil && curFd != nil {
					pi := -1
					k := 0
					for _, f := range curFd.Type.Params.List {
						for _, nm := range f.Names {
							if p.TypesInfo.Defs[nm] == p.TypesInfo.Uses[paramCase] {
								pi = k
							}
							k++
						}
					}
					allConst := pi >= 0
					var passed []int64
					callers := map[string]bool{}
					if pi >= 0 {
						for _, f2 := range p.Syntax {
							var enc string
							ast.Inspect(f2, func(m ast.Node) bool {
								if fd2, ok := m.(*ast.FuncDecl); ok {
									enc = fd2.Name.Name
								}
								call, ok := m.(*ast.CallExpr)
								if !ok {
									return true
								}
								if id, ok := call.Fun.(*ast.Ident); ok && p.TypesInfo.Uses[id] == p.TypesInfo.Defs[curFd.Name] && pi < len(call.Args) {
									callers[enc] = true
									if v, ok := constIntOf(p.TypesInfo, call.Args[pi]); ok {
										passed = append(passed, v)
									} else {
										allConst = false
									}
								}
								return true
							})
						}
					}
					if allConst && len(passed) > 0 {
						// judged per call site: constants of the switch plus the opcode passed there
						// opcodes missing at some site
						missAt := map[int64]bool{}
						for _, v := range passed {
							for k := range opNames {
								if !covered[k] && k != v {
									missAt[k] = true
								}
							}
						}
						for k := range opNames {
							if !missAt[k] {
								covered[k] = true
							}
						}
						if len(callers) == 1 && callers["Context"] {
							contextHelper = true
						}
					}
				}
				var missing []string
				for k, name := range opNames {
					if !covered[k] {
						missing = append(missing, name)
					}
				}
				sort.Strings(missing)
				key := fmt.Sprintf("%s:switch EditOp", fname)
				c.sawFn(fname)
				switch {
				case len(missing) == 0:
					c.ok("R-OP-EXHAUSTIVE", key, sw.Pos(), "all four opcodes handled")
				case hasStrictDefault:
					c.ok("R-OP-EXHAUSTIVE", key, sw.Pos(), "unhandled opcodes "+strings.Join(missing, ",")+" reach a default arm that panics or returns an error")
				case (fname == "mdiff.Context" && len(missing) == 1 || contextHelper) && onlyOtherSide(missing):
					c.ok("R-OP-EXHAUSTIVE", key, sw.Pos(), "exempt: by definition of the context format its left half has no "+missing[0]+" lines on this side")
				default:
					d := ""
					if hasDefault {
						d = " (its default arm neither panics nor returns an error)"
					}
					c.bad("R-OP-EXHAUSTIVE", key, sw.Pos(), "edits with opcode "+strings.Join(missing, ", ")+" are silently ignored by this consumer"+d)
				}
				return true
			})
		}
	}
}

func runC11(c *Ctx) {
	P := c.P
	c.Explanation = "Decides structural clauses: (R-EDIT-SPAN) every Edit built by the edit-script constructor takes X from a slice expression over lhs and Y from one over rhs — 'the very spans of lhs and rhs', not equal-looking copies — and the bounds of an X span are never index variables of rhs and vice versa. (R-EDIT-OPTABLE) every Edit literal in packages slice and mdiff sets exactly the fields the documentation of Edit assigns to its opcode (Drop/Emit: X; Copy: Y; Replace: X and Y). (R-OP-EXHAUSTIVE) every switch over EditOp in non-test code handles all four opcodes or has a default arm that panics or returns an error (the two half-switches of the context format are exempt by the format's definition). (cursor families) a cursor family of the builder that indexes or bounds spans of an input never also indexes the common subsequence; (R-SIBLING-GUARD) guards before a comparison of an element of each input constrain both indices or neither. The run of kept elements is counted from the offset its Emit span starts at; no Edit is built under a boolean carried round the loop and never cleared; spans assigned after construction are held to the same provenance as literals. (R-LCS-FRESH) LCSFunc hands back a parameter only where it is known to be empty. Does NOT decide that applying the script yields rhs, minimality (LCS length), canonical form, emptiness iff equal, or the exact span bounds."
	c.rule("R-EDIT-SPAN", 4, "X spans are slices of lhs, Y spans slices of rhs; span bounds use the matching side's index variables")
	c.rule("R-EDIT-OPTABLE", 6, "Op ↔ fields as documented on every Edit literal with a constant opcode")
	c.rule("R-OP-EXHAUSTIVE", 3, "every EditOp switch is exhaustive or has a strict default")
	ruleSiblingGuard(c, "slice")
	c.rule("R-LCS-FRESH", 1, "the common subsequence the script is built from is computed, never one of the inputs handed back (except an empty one)")
	ruleResultNotInput(c, "R-LCS-FRESH", []string{"LCSFunc"})

	esf := P.Func("slice", "", "editScriptFunc")
	es := P.Func("slice", "", "EditScript")
	if esf == nil || es == nil {
		c.undecided("ANCHOR", "slice.EditScript/editScriptFunc", 0, "not found")
		return
	}
	{
		cw := []*ssa.Function{esf, es}
		if l := P.Func("slice", "", "LCSFunc"); l != nil {
			cw = append(cw, l)
		}
		ruleCounterWidth(c, cw)
		ruleLCSDiagonal(c)
		ruleSizeGuard(c, "slice")
	}
	// which parameters of the builder receive EditScript's lhs and rhs
	li, ri := -1, -1
	allInstrs(es, func(in ssa.Instruction) {
		if call, ok := in.(*ssa.Call); ok && staticCallee(&call.Call) == esf {
			for i, a := range call.Call.Args {
				if a == ssa.Value(es.Params[0]) {
					li = i
				}
				if a == ssa.Value(es.Params[1]) {
					ri = i
				}
			}
		}
	})
	if li < 0 || ri < 0 {
		c.undecided("R-EDIT-SPAN", "slice.EditScript:delegation", es.Pos(), "EditScript does not pass lhs and rhs on to the builder")
		return
	}
	c.sawFn(fnName(esf))
	lhs, rhs := esf.Params[li], esf.Params[ri]
	ruleCursorFamilies(c, esf, lhs, rhs)
	ruleSpanConsecutive(c, esf, lhs, rhs)
	// direct index variables of each side
	directIdx := map[ssa.Value]string{}
	ocIdx := newOrig(esf)
	allInstrs(esf, func(in ssa.Instruction) {
		if ia, ok := in.(*ssa.IndexAddr); ok {
			// the input itself, or a window on it that the loop advances by re-slicing
			_, isPhi := ia.X.(*ssa.Phi)
			if ia.X == ssa.Value(lhs) || isPhi && ocIdx.of(ia.X).onlyParam(li) {
				directIdx[ia.Index] = "lhs"
			}
			if ia.X == ssa.Value(rhs) || isPhi && ocIdx.of(ia.X).onlyParam(ri) {
				directIdx[ia.Index] = "rhs"
			}
		}
	})
	var leaves func(v ssa.Value, seen map[ssa.Value]bool, out *[]ssa.Value)
	leaves = func(v ssa.Value, seen map[ssa.Value]bool, out *[]ssa.Value) {
		if v == nil || seen[v] {
			return
		}
		seen[v] = true
		*out = append(*out, v)
		switch x := v.(type) {
		case *ssa.Phi:
			for _, e := range x.Edges {
				leaves(e, seen, out)
			}
		case *ssa.BinOp:
			leaves(x.X, seen, out)
			leaves(x.Y, seen, out)
		}
	}
	oc := newOrig(esf)
	// the builder and the package-local helpers it hands its spans to
	type site struct {
		caller *ssa.Function
		call   *ssa.Call
	}
	callSites := map[*ssa.Function][]site{}
	closure := []*ssa.Function{esf}
	inClosure := map[*ssa.Function]bool{esf: true}
	for i := 0; i < len(closure) && i < 32; i++ {
		f := closure[i]
		allInstrs(f, func(in ssa.Instruction) {
			call, ok := in.(*ssa.Call)
			if !ok {
				return
			}
			cal := origin(staticCallee(&call.Call))
			if cal == nil || cal.Blocks == nil || cal.Pkg == nil || cal.Pkg != origin(esf).Pkg || cal == esf {
				return
			}
			callSites[cal] = append(callSites[cal], site{f, call})
			if !inClosure[cal] {
				inClosure[cal] = true
				closure = append(closure, cal)
			}
		})
	}
	// judgeSpan judges the value v (in function f) used as field X or Y; `via` names the chain of helpers.
	var judgeSpan func(f *ssa.Function, v ssa.Value, field string, key string, pos token.Pos, depth int)
	judgeSpan = func(f *ssa.Function, v ssa.Value, field string, key string, pos token.Pos, depth int) {
		side := struct {
			param *ssa.Parameter
			idx   int
			other string
		}{lhs, li, "rhs"}
		if field == "Y" {
			side.param, side.idx, side.other = rhs, ri, "lhs"
		}
		if f != esf {
			// inside a helper: the span must be one of the helper's parameters (or derived only from it); judge the argument at every call site
			o := newOrig(f).of(v)
			pi := -1
			for k := range f.Params {
				if o.onlyParam(k) {
					pi = k
				}
			}
			if pi < 0 || depth > 3 || len(callSites[f]) == 0 {
				c.bad("R-EDIT-SPAN", key, pos, fmt.Sprintf("%s has origin %s inside helper %s; it must be a span of %s itself handed down by the builder", field, o, f.Name(), side.param.Name()))
				return
			}
			direct := v == ssa.Value(f.Params[pi])
			if ct, ok := v.(*ssa.ChangeType); ok && ct.X == ssa.Value(f.Params[pi]) {
				direct = true
			}
			for n, cs := range callSites[f] {
				k2 := fmt.Sprintf("%s via %s#%d", key, cs.caller.Name(), n+1)
				if !direct {
					// a sub-span computed in the helper: only the origin can be judged
					k2 += " (origin only)"
				}
				judgeSpan(cs.caller, cs.call.Call.Args[pi], field, k2, cs.call.Pos(), depth+1)
			}
			return
		}
		o := oc.of(v)
		if !o.onlyParam(side.idx) {
			c.bad("R-EDIT-SPAN", key, pos, fmt.Sprintf("%s has origin %s; it must be a span of %s itself (the tests compare values, so an equal-looking span of the other input passes them)", field, o, side.param.Name()))
			return
		}
		if strings.HasSuffix(key, "(origin only)") {
			c.ok("R-EDIT-SPAN", key, pos, "span of "+side.param.Name())
			return
		}
		// bounds must not be index variables of the other side
		inner := v
		if ct, ok := inner.(*ssa.ChangeType); ok {
			inner = ct.X
		}
		// the span is the input itself, a slice expression of it, or a window on it that the loop advances by
		// re-slicing (lhs = lhs[n:]): every slice expression on the way down to the parameter is held to the rule
		var ls []ssa.Value
		seen := map[ssa.Value]bool{}
		visited := map[ssa.Value]bool{}
		shapeOK := true
		var down func(v ssa.Value)
		down = func(v ssa.Value) {
			if visited[v] {
				return
			}
			visited[v] = true
			switch y := v.(type) {
			case *ssa.ChangeType:
				down(y.X)
			case *ssa.Slice:
				leaves(y.Low, seen, &ls)
				leaves(y.High, seen, &ls)
				down(y.X)
			case *ssa.Phi:
				for _, e := range y.Edges {
					down(e)
				}
			case *ssa.Parameter:
			default:
				shapeOK = false
			}
		}
		down(inner)
		if !shapeOK {
			c.undecided("R-EDIT-SPAN", key, pos, "span is not a slice expression")
			return
		}
		badLeaf := ""
		for _, lf := range ls {
			if directIdx[lf] == side.other {
				badLeaf = ksym(lf)
			}
		}
		c.judge(badLeaf == "", "R-EDIT-SPAN", key, pos, "span of "+side.param.Name()+" bounded by its own offsets", "the bounds of this "+side.param.Name()+" span use "+badLeaf+", an index variable of "+side.other)
	}
	for _, f := range closure {
		for _, l := range editLiterals(f) {
			k, _ := constInt(l.op)
			for _, field := range []string{"X", "Y"} {
				v, ok := l.set[field]
				if !ok {
					continue
				}
				c.sawFn(fnName(f))
				judgeSpan(f, v, field, fmt.Sprintf("%s:Edit{%s}.%s", fnName(f), opNames[k], field), l.pos, 0)
			}
		}
	}
	// the run of kept elements is counted from the offset its Emit span starts at, and no Edit is built
	// under a boolean that is carried round the loop without ever being cleared
	ruleEmitRun(c, esf, lhs, rhs)
	// spans assigned to an edit after it was built (through a pointer into the script) are held to the same
	// provenance: a span "grown" with append is a copy, not the span of the input
	for _, f := range closure {
		f := f
		nLate := 0
		allInstrs(f, func(in ssa.Instruction) {
			st, ok := in.(*ssa.Store)
			if !ok {
				return
			}
			fa, ok := st.Addr.(*ssa.FieldAddr)
			if !ok || !isEditType(fa.X.Type()) {
				return
			}
			_, fld := fieldVarOf(fa)
			if fld == nil || (fld.Name() != "X" && fld.Name() != "Y") {
				return
			}
			switch b := fa.X.(type) {
			case *ssa.Alloc:
				if b.Comment == "complit" {
					return // a literal: judged above
				}
			case *ssa.IndexAddr:
				if al, ok := b.X.(*ssa.Alloc); ok && (al.Comment == "slicelit" || al.Comment == "arraylit") {
					return
				}
			}
			nLate++
			c.sawFn(fnName(f))
			judgeSpan(f, st.Val, fld.Name(), fmt.Sprintf("%s:Edit.%s assigned after construction #%d (origin only)", fnName(f), fld.Name(), nLate), st.Pos(), 0)
		})
	}
	ruleOpTable(c, "slice", "mdiff")
	ruleOpExhaustive(c, "slice", "mdiff")
}

// ---------------------------------------------------------------------------

func runC13(c *Ctx) {
	P := c.P
	c.Explanation = "Decides structural clauses: (R-EDITS-WRITERS) Diff.Edits is stored only by New and nothing in package mdiff writes through it (no element store, append or mutating callee with that provenance) — 'Edits always holds the full script and is not disturbed by AddContext or Unify'. (R-CONTEXT-FRESH) the one in-place append on an edit's span in UnifyChunks is guarded by both edits being Emit, New never places an Emit edit in a chunk, and every Emit edit AddContext builds has a freshly allocated span, so merging context cannot write into Left, Right or the script. (R-LR-MIRROR) every update of a chunk's left range has, in the same block, the mirrored update of its right range (LStart↔RStart, LEnd↔REnd, lcur↔rcur, addl↔addr): context lines exist on both sides, so a one-sided update leaves the two ranges describing different amounts of text. (R-SIBLING-GUARD) where d.Left[p] is compared with d.Right[q] the dominating guards constrain both indices or neither. (R-DROP-GUARDED) an edit leaves a chunk's list only under a test on its span's length or after its span was appended to its neighbour; (R-JOIN-LAST) no span is trimmed after the boundary context edits were joined in the same iteration; (R-ALLOC-BOUNDED) no allocation sized by the bare context count. (R-MERGE-TARGET) the chunk a successor is compared and merged with is read from the kept chunks each time round or is a variable the loop updates. Does NOT decide that chunk ranges and edits describe a correct patch; in particular context found by positional comparison reaching across a neighbouring chunk (a data-dependent fault known from earlier dynamic work) has no structural signature and these rules are silent on it."
	c.rule("R-EDITS-WRITERS", 2, "Diff.Edits is stored only in New; no write through a value derived from it")
	c.rule("R-CONTEXT-FRESH", 5, "in-place span append only between Emit edits; Emit edits in chunks have fresh, mutually disjoint spans; New puts no Emit edit in a chunk; Unify edits the chunk's own edit list; chunks stay separate only across a strict gap")
	c.rule("R-LR-MIRROR", 8, "every L-range store has its mirrored R-range store in the same block")
	diffT := P.Named("mdiff", "Diff")
	editsF := P.Field("mdiff", "Diff", "Edits")
	chunkT := P.Named("mdiff", "Chunk")
	newFn, addCtx, unify, findCtx := P.Func("mdiff", "", "New"), P.Func("mdiff", "Diff", "AddContext"), P.Func("mdiff", "", "UnifyChunks"), P.Func("mdiff", "Diff", "findContext")
	if diffT == nil || editsF == nil || chunkT == nil || newFn == nil || addCtx == nil || unify == nil || findCtx == nil {
		c.undecided("ANCHOR", "mdiff.Diff/Chunk/New/AddContext/UnifyChunks/findContext", 0, "not found")
		return
	}
	// ---- R-EDITS-WRITERS
	nStores := 0
	for _, fn := range P.PkgFuncs("mdiff") {
		name := fnName(fn)
		allInstrs(fn, func(in ssa.Instruction) {
			if st, ok := in.(*ssa.Store); ok {
				if fa, ok := st.Addr.(*ssa.FieldAddr); ok {
					if _, f := fieldVarOf(fa); sameField(f, editsF) {
						nStores++
						_, isAlloc := fa.X.(*ssa.Alloc)
						c.sawFn(name)
						c.judge(isAlloc && origin(fn) == newFn, "R-EDITS-WRITERS", name+":store Diff.Edits", st.Pos(), "set once by New", "Diff.Edits is reassigned outside New: the full script is disturbed")
					}
				}
			}
		})
		// writes through values derived from a load of Diff.Edits
		derived := func(v ssa.Value) bool {
			seen := map[ssa.Value]bool{}
			var walk func(v ssa.Value) bool
			walk = func(v ssa.Value) bool {
				if v == nil || seen[v] {
					return false
				}
				seen[v] = true
				if _, f := loadedField(v); f != nil && sameField(f, editsF) {
					return true
				}
				switch x := v.(type) {
				case *ssa.Slice:
					return walk(x.X)
				case *ssa.IndexAddr:
					return walk(x.X)
				case *ssa.FieldAddr:
					return walk(x.X)
				case *ssa.Phi:
					for _, e := range x.Edges {
						if walk(e) {
							return true
						}
					}
				case *ssa.Call:
					if ap, ok := isBuiltinCall(x, "append"); ok {
						return walk(ap.Call.Args[0])
					}
					if cal := staticCallee(&x.Call); cal != nil && (cal.Name() == "PtrAt" || cal.Name() == "At") && len(x.Call.Args) > 0 {
						return walk(x.Call.Args[0])
					}
				case *ssa.UnOp:
					if x.Op == token.MUL {
						if _, isAlloc := x.X.(*ssa.Alloc); !isAlloc {
							return walk(x.X)
						}
					}
				}
				return false
			}
			return walk(v)
		}
		for _, ev := range writeEvents(fn) {
			if derived(ev.base) {
				c.sawFn(name)
				c.bad("R-EDITS-WRITERS", name+":write through Diff.Edits", instrPos(ev.in), ev.what+" through a value derived from Diff.Edits: the full script is modified")
			}
		}
	}
	c.judge(nStores >= 1, "R-EDITS-WRITERS", "mdiff:no other writer", newFn.Pos(), "no function of package mdiff writes through Diff.Edits", "Diff.Edits is never initialised")
	// a chunk's edit list must not share storage with the script: AddContext and Unify append to and trim chunk
	// lists in place.  In New, nothing stored to Chunk.Edits may be a slice of the value stored to Diff.Edits.
	{
		var script ssa.Value
		allInstrs(newFn, func(in ssa.Instruction) {
			if st, ok := in.(*ssa.Store); ok {
				if fa, ok := st.Addr.(*ssa.FieldAddr); ok {
					if _, f := fieldVarOf(fa); sameField(f, editsF) {
						script = st.Val
					}
				}
			}
		})
		chunkEditsF := P.Field("mdiff", "Chunk", "Edits")
		fromScript := func(v ssa.Value) bool {
			seen := map[ssa.Value]bool{}
			var walk func(v ssa.Value) bool
			walk = func(v ssa.Value) bool {
				if v == nil || seen[v] {
					return false
				}
				seen[v] = true
				if v == script {
					return true
				}
				switch x := v.(type) {
				case *ssa.Slice:
					return walk(x.X)
				case *ssa.ChangeType:
					return walk(x.X)
				case *ssa.Phi:
					for _, e := range x.Edges {
						if walk(e) {
							return true
						}
					}
				case *ssa.Call:
					if ap, ok := isBuiltinCall(x, "append"); ok {
						return walk(ap.Call.Args[0])
					}
				}
				return false
			}
			return walk(v)
		}
		if script != nil && chunkEditsF != nil {
			nCh := 0
			for _, fn := range append([]*ssa.Function{newFn}, newFn.AnonFuncs...) {
				allInstrs(fn, func(in ssa.Instruction) {
					st, ok := in.(*ssa.Store)
					if !ok {
						return
					}
					fa, ok := st.Addr.(*ssa.FieldAddr)
					if !ok {
						return
					}
					if _, f := fieldVarOf(fa); !sameField(f, chunkEditsF) {
						return
					}
					nCh++
					c.judge(!fromScript(st.Val), "R-EDITS-WRITERS", fmt.Sprintf("mdiff.New:chunk edits=%s", ksym(st.Val)), st.Pos(), "the chunk's edit list has its own storage", "a chunk's edit list is a window on the script slice stored in Diff.Edits: appending context to the chunk (AddContext) or trimming it (Unify) overwrites the script")
				})
			}
			if nCh == 0 {
				c.undecided("R-EDITS-WRITERS", "mdiff.New:chunk edits", newFn.Pos(), "New never sets a chunk's edit list")
			}
		}
	}

	// ---- R-CONTEXT-FRESH
	// (1) the in-place span append in UnifyChunks is guarded by Emit on both edits
	c.sawFn(fnName(unify))
	opF := P.Field("slice", "Edit", "Op")
	usc := buildCallScope(unify)
	// emitKnown: the edit v points to is known to be an Emit edit at block b (facts there, or — for a
	// helper's parameter — at every call site of the helper)
	var emitKnown func(v ssa.Value, b *ssa.BasicBlock, depth int) bool
	emitKnown = func(v ssa.Value, b *ssa.BasicBlock, depth int) bool {
		for _, cm := range cmpsAt(b) {
			if cm.Op == token.EQL && isConstInt(cm.Y, '=') {
				if b2, f2 := loadedField(cm.X); f2 != nil && sameField(f2, opF) && b2 == v {
					return true
				}
			}
		}
		if p, ok := v.(*ssa.Parameter); ok && depth < 3 {
			sites := usc.sitesOf(p.Parent())
			if len(sites) == 0 {
				return false
			}
			idx := -1
			for i, q := range p.Parent().Params {
				if q == p {
					idx = i
				}
			}
			for _, s := range sites {
				if idx < 0 || idx >= len(s.call.Call.Args) || !emitKnown(s.call.Call.Args[idx], s.call.Block(), depth+1) {
					return false
				}
			}
			return true
		}
		return false
	}
	nApp := 0
	for _, ufn := range usc.fns {
		allInstrs(ufn, func(in ssa.Instruction) {
			ap, ok := isBuiltinCall2(in, "append")
			if !ok {
				return
			}
			base, f := loadedField(ap.Call.Args[0])
			if f == nil || f.Name() != "X" && f.Name() != "Y" || !isEditType(base.Type()) {
				return
			}
			nApp++
			c.sawFn(fnName(ufn))
			var src ssa.Value
			if len(ap.Call.Args) > 1 {
				if b2, f2 := loadedField(ap.Call.Args[1]); f2 != nil && (f2.Name() == "X" || f2.Name() == "Y") {
					src = b2
				}
			}
			c.judge(emitKnown(base, in.Block(), 0) && (src == nil || emitKnown(src, in.Block(), 0)), "R-CONTEXT-FRESH", "mdiff.UnifyChunks:in-place append", in.Pos(), "only between two Emit (context) edits", "a span is extended in place without both edits being known to be Emit: it may write into Left, Right or the original script")
		})
	}
	if nApp == 0 {
		c.ok("R-CONTEXT-FRESH", "mdiff.UnifyChunks:in-place append", unify.Pos(), "no in-place span append at all")
	}
	// (2) Emit edits built in mdiff have fresh spans
	for _, fn := range []*ssa.Function{addCtx} {
		c.sawFn(fnName(fn))
		oc := newOrig(fn)
		for _, l := range editLiterals(fn) {
			if k, ok := constInt(l.op); !ok || k != '=' {
				continue
			}
			v := l.set["X"]
			fresh := false
			why := "no span"
			if v != nil {
				o := oc.of(v)
				fresh = o.onlyFresh()
				why = o.String()
				if ex, ok := v.(*ssa.Extract); ok {
					if call, ok := ex.Tuple.(*ssa.Call); ok && staticCallee(&call.Call) == findCtx {
						ro := resultOrigin(findCtx, ex.Index)
						fresh = ro.onlyFresh()
						why = "findContext result " + ro.String()
					}
				}
			}
			c.judge(fresh, "R-CONTEXT-FRESH", fnName(fn)+":Emit span", l.pos, "context span freshly allocated", "a context edit's span aliases existing storage ("+why+"): trimming or merging context in Unify would write into it")
		}
	}
	// (3) New appends no Emit edit to a chunk: the Emit arm does not reach the append within the iteration
	{
		c.sawFn(fnName(newFn))
		var emitArm *ssa.BasicBlock
		var chunkAppend ssa.Instruction
		allInstrs(newFn, func(in ssa.Instruction) {
			if iff, ok := in.(*ssa.If); ok {
				if bo, ok := iff.Cond.(*ssa.BinOp); ok && bo.Op == token.EQL && isConstInt(bo.Y, '=') {
					if _, f := loadedField(bo.X); f != nil && sameField(f, opF) {
						emitArm = iff.Block().Succs[0]
					}
					if fld, ok := bo.X.(*ssa.Field); ok {
						if _, f := fieldVarOf(fld); sameField(f, opF) {
							emitArm = iff.Block().Succs[0]
						}
					}
				}
			}
			if ap, ok := isBuiltinCall2(in, "append"); ok {
				if _, f := loadedField(ap.Call.Args[0]); f != nil && f.Name() == "Edits" {
					chunkAppend = in
				}
			}
		})
		if emitArm == nil || chunkAppend == nil {
			c.undecided("R-CONTEXT-FRESH", "mdiff.New:Emit not chunked", newFn.Pos(), "Emit arm or chunk append not recognised")
		} else {
			// loop header: the block of the range/phi driving the iteration: stop at blocks with a back edge target
			reach, wit := reachesWithout(P, emitArm.Instrs[0], true, func(in ssa.Instruction) bool { return in == chunkAppend }, func(in ssa.Instruction) bool {
				// stop at the loop header (a block that dominates the emit arm and has a back edge)
				b := in.Block()
				if in != b.Instrs[0] || !b.Dominates(emitArm) {
					return false
				}
				for _, p := range b.Preds {
					if b.Dominates(p) {
						return true
					}
				}
				return false
			})
			c.judge(!reach, "R-CONTEXT-FRESH", "mdiff.New:Emit not chunked", instrPos(chunkAppend), "an Emit edit of the script never enters a chunk", "New can append an Emit edit of the script to a chunk ("+wit+"): Unify's in-place context merge would then write into the script's or the inputs' storage")
		}
	}

	// (4) the two context spans findContext returns do not share a backing array
	ruleContextDisjoint(c, findCtx)
	// (5) Unify edits the chunk's own edit list: stores to Edit fields go through pointers into it, not into local copies
	{
		nSt := 0
		for _, ufn := range usc.fns {
			allInstrs(ufn, func(in ssa.Instruction) {
				st, ok := in.(*ssa.Store)
				if !ok {
					return
				}
				fa, ok := st.Addr.(*ssa.FieldAddr)
				if !ok || !isEditType(fa.X.Type()) {
					return
				}
				_, f := fieldVarOf(fa)
				if f.Name() != "X" && f.Name() != "Y" {
					return
				}
				nSt++
				_, isLocal := fa.X.(*ssa.Alloc)
				c.judge(!isLocal, "R-CONTEXT-FRESH", "mdiff.UnifyChunks:Edit."+f.Name()+" updated in place", st.Pos(), "written through a pointer into the chunk's edit list", "a context edit is trimmed/extended on a local COPY of the edit: the change never reaches the chunk's edit list and the dropped lines vanish from the merged chunk")
			})
		}
		if nSt == 0 {
			c.undecided("R-CONTEXT-FRESH", "mdiff.UnifyChunks:Edit updated in place", unify.Pos(), "no context-edit update found")
		}
	}
	// (6) chunks are left unmerged only when there is a real gap between them
	{
		lEndF, lStartF := P.Field("mdiff", "Chunk", "LEnd"), P.Field("mdiff", "Chunk", "LStart")
		nKeep := 0
		allInstrs(unify, func(in ssa.Instruction) {
			ap, ok := isBuiltinCall2(in, "append")
			if !ok || len(ap.Call.Args) != 2 {
				return
			}
			// append(merged, c) inside the loop: element type *Chunk, single element
			sl, ok := ap.Call.Args[1].(*ssa.Slice)
			if !ok {
				return
			}
			al, ok := sl.X.(*ssa.Alloc)
			if !ok || al.Comment != "varargs" || !isNamedOrigin(ap.Type().Underlying().(*types.Slice).Elem(), chunkT) {
				return
			}
			// only inside a loop (dominated by a block with a back edge)
			inLoop := false
			for b := in.Block(); b != nil; b = b.Idom() {
				for _, p := range b.Preds {
					if b.Dominates(p) {
						inLoop = true
					}
				}
			}
			if !inLoop {
				return
			}
			nKeep++
			strict := false
			for _, cm := range cmpsAt(in.Block()) {
				_, fx := loadedField(cm.X)
				_, fy := loadedField(cm.Y)
				if fx != nil && fy != nil && sameField(fx, lStartF) && sameField(fy, lEndF) && cm.Op == token.GTR {
					strict = true
				}
				if fx != nil && fy != nil && sameField(fx, lEndF) && sameField(fy, lStartF) && cm.Op == token.LSS {
					strict = true
				}
				// lap := last.LEnd - c.LStart; lap < 0
				if bo, ok := cm.X.(*ssa.BinOp); ok && bo.Op == token.SUB && isConstInt(cm.Y, 0) && cm.Op == token.LSS {
					_, f1 := loadedField(bo.X)
					_, f2 := loadedField(bo.Y)
					if f1 != nil && f2 != nil && sameField(f1, lEndF) && sameField(f2, lStartF) {
						strict = true
					}
				}
			}
			c.judge(strict, "R-CONTEXT-FRESH", "mdiff.UnifyChunks:kept apart", in.Pos(), "a chunk is kept separate only when it starts strictly after the previous one ends", "a chunk is kept separate without a strict gap test (c.LStart > last.LEnd): chunks that exactly abut are not merged, so after Unify two chunks can still be adjacent")
		})
		if nKeep == 0 {
			c.undecided("R-CONTEXT-FRESH", "mdiff.UnifyChunks:kept apart", unify.Pos(), "the keep-separate branch was not recognised")
		}
	}

	ruleTrimSide(c)
	ruleBoundSide(c, "mdiff")
	ruleSiblingGuard(c, "mdiff")
	ruleUnifyOrder(c)
	ruleMergeTarget(c)
	ruleMdiffPairs(c)
	ruleSizeGuard(c, "mdiff")
	ruleChunkLoopComplete(c)
	ruleSidePairing(c)
	ruleGuardSubject(c)
	ruleStaleAfterEdit(c)
	ruleUnifyConsumes(c)
	ruleGapReposition(c)
	ruleAllocBounded(c, "mdiff", false)

	// ---- R-LR-MIRROR
	mirror := strings.NewReplacer(".LStart", ".RStart", ".LEnd", ".REnd", "lcur", "rcur", "addl", "addr")
	lFields := map[string]string{"LStart": "RStart", "LEnd": "REnd"}
	type rstore struct {
		st    *ssa.Store
		field string
		base  string
		delta bool   // value = (same field of same base) op D
		op    string // + or -
		d     string // rendering of D (delta) or of the absolute value
	}
	var scope []*ssa.Function
	// New's two accumulator closures are one-sided by design (a Drop moves only the left side); they are compared as a mirrored pair below
	scope = append(scope, buildCallScope(addCtx).fns...)
	for _, f := range usc.fns {
		dup := false
		for _, g := range scope {
			if g == f {
				dup = true
			}
		}
		if !dup {
			scope = append(scope, f)
		}
	}
	for _, fn := range scope {
		name := fnName(fn)
		byBlock := map[*ssa.BasicBlock][]rstore{}
		allInstrs(fn, func(in ssa.Instruction) {
			st, ok := in.(*ssa.Store)
			if !ok {
				return
			}
			fa, ok := st.Addr.(*ssa.FieldAddr)
			if !ok || !isNamedOrigin(fa.X.Type(), chunkT) {
				return
			}
			_, f := fieldVarOf(fa)
			switch f.Name() {
			case "LStart", "LEnd", "RStart", "REnd":
			default:
				return
			}
			rs := rstore{st: st, field: f.Name(), base: ksym(fa.X), d: ksym(st.Val)}
			if bo, ok := st.Val.(*ssa.BinOp); ok && (bo.Op == token.ADD || bo.Op == token.SUB) {
				if b2, f2 := loadedField(bo.X); f2 != nil && sameField(f2, f) && ksym(b2) == rs.base {
					rs.delta, rs.op, rs.d = true, bo.Op.String(), ksym(bo.Y)
				}
			}
			byBlock[in.Block()] = append(byBlock[in.Block()], rs)
		})
		for _, stores := range byBlock {
			c.sawFn(name)
			used := map[int]bool{}
			for i, a := range stores {
				rf, isL := lFields[a.field]
				if !isL {
					continue
				}
				found := false
				for j, b := range stores {
					if used[j] || b.field != rf || b.base != a.base || a.delta != b.delta {
						continue
					}
					if a.delta && a.op == b.op && a.d == b.d {
						found = true
					}
					if !a.delta && mirror.Replace(a.d) == b.d {
						found = true
					}
					if found {
						used[j], used[i] = true, true
						break
					}
				}
				key := fmt.Sprintf("%s:%s.%s", name, a.base, a.field)
				how := a.field + " = " + a.d
				if a.delta {
					how = a.field + " " + a.op + "= " + a.d
				}
				c.judge(found, "R-LR-MIRROR", key, a.st.Pos(), "mirrored by the same update of ."+rf, "the left range is updated ("+how+") without the mirrored update of ."+rf+" in the same block: the two ranges no longer describe the same amount of context")
			}
			for j, b := range stores {
				if _, isL := lFields[b.field]; !isL && !used[j] {
					c.bad("R-LR-MIRROR", fmt.Sprintf("%s:%s.%s", name, b.base, b.field), b.st.Pos(), "the right range is updated without the mirrored update of the left range in the same block")
				}
			}
		}
	}
	// ---- New: the chunk's end on each side moves together with the running position of that side, by the
	// number of lines of that side the edit carries
	ruleNewCursorPair(c, newFn, chunkT)
}

// ruleNewCursorPair (part of R-LR-MIRROR, for mdiff.New and its closures).  New keeps two running
// positions (into Left and Right).  Necessary for "the chunk's edits consume exactly [LStart,LEnd) / produce
// [RStart,REnd)": (a) a chunk is started at the running positions — LStart and LEnd from the left one, RStart
// and REnd from the right one; (b) whenever an end field is advanced by D, the running position of the same
// side is advanced by the same D in the same block; (c) D is the number of X lines for the left side and of
// Y lines for the right side of the edit (or 0).
func ruleNewCursorPair(c *Ctx, newFn *ssa.Function, chunkT *types.Named) {
	name := fnName(newFn)
	fns := append([]*ssa.Function{newFn}, newFn.AnonFuncs...)
	// resolve a free variable of a closure to the captured cell of New
	capt := map[ssa.Value]ssa.Value{}
	allInstrs(newFn, func(in ssa.Instruction) {
		if mc, ok := in.(*ssa.MakeClosure); ok {
			fn := mc.Fn.(*ssa.Function)
			for i, b := range mc.Bindings {
				if i < len(fn.FreeVars) {
					capt[fn.FreeVars[i]] = b
				}
			}
		}
	})
	cell := func(addr ssa.Value) ssa.Value {
		if b, ok := capt[addr]; ok {
			addr = b
		}
		if al, ok := addr.(*ssa.Alloc); ok && isIntType(al.Type().Underlying().(*types.Pointer).Elem()) {
			return al
		}
		return nil
	}
	// posOf: the identity of the running position a value reads
	posOf := func(v ssa.Value) ssa.Value {
		if a, ok := loadAddr(v); ok {
			return cell(a)
		}
		if ph, ok := v.(*ssa.Phi); ok && isIntType(ph.Type()) {
			return ph
		}
		return nil
	}
	side := map[string]string{"LStart": "L", "LEnd": "L", "RStart": "R", "REnd": "R"}
	sidePos := map[string]map[ssa.Value]bool{"L": {}, "R": {}}
	type dstore struct {
		st    *ssa.Store
		fn    *ssa.Function
		field string
		d     ssa.Value
	}
	var deltas []dstore
	for _, fn := range fns {
		allInstrs(fn, func(in ssa.Instruction) {
			st, ok := in.(*ssa.Store)
			if !ok {
				return
			}
			fa, ok := st.Addr.(*ssa.FieldAddr)
			if !ok || !isNamedOrigin(fa.X.Type(), chunkT) {
				return
			}
			_, f := fieldVarOf(fa)
			sd, ok := side[f.Name()]
			if !ok {
				return
			}
			if bo, ok := st.Val.(*ssa.BinOp); ok && bo.Op == token.ADD {
				if _, f2 := loadedField(bo.X); f2 != nil && sameField(f2, f) {
					deltas = append(deltas, dstore{st, fn, f.Name(), bo.Y})
					return
				}
			}
			if _, isC := st.Val.(*ssa.Const); isC {
				return // the initial literal
			}
			if p := posOf(st.Val); p != nil {
				sidePos[sd][p] = true
			} else {
				c.undecided("R-LR-MIRROR", fmt.Sprintf("%s:%s=%s", name, f.Name(), ksym(st.Val)), st.Pos(), "a chunk range field is set from something that is neither a running position nor an advance of itself")
			}
		})
	}
	c.sawFn(name)
	var lp, rp ssa.Value
	okStart := len(sidePos["L"]) == 1 && len(sidePos["R"]) == 1
	for p := range sidePos["L"] {
		lp = p
	}
	for p := range sidePos["R"] {
		rp = p
	}
	if okStart && lp == rp {
		okStart = false
	}
	c.judge(okStart, "R-LR-MIRROR", name+":chunk starts at the running positions", newFn.Pos(), "LStart/LEnd start from the left position, RStart/REnd from the right one", "a new chunk's LStart/LEnd and RStart/REnd are not set from one left and one (different) right running position: a range starts at the wrong side's offset")
	if !okStart {
		return
	}
	// every advance of an end field is paired with the same advance of that side's position
	if len(deltas) == 0 {
		c.undecided("R-LR-MIRROR", name+":end advances", newFn.Pos(), "no advance of LEnd/REnd found in New")
		return
	}
	// leaves of an advance amount: through φ, and through closure parameters to the arguments at the call sites
	var leaves func(v ssa.Value, fn *ssa.Function, seen map[ssa.Value]bool, out *[]ssa.Value)
	leaves = func(v ssa.Value, fn *ssa.Function, seen map[ssa.Value]bool, out *[]ssa.Value) {
		if seen[v] {
			return
		}
		seen[v] = true
		switch x := v.(type) {
		case *ssa.Phi:
			for _, e := range x.Edges {
				leaves(e, fn, seen, out)
			}
			return
		case *ssa.Parameter:
			if fn != newFn {
				idx := -1
				for i, p := range fn.Params {
					if p == x {
						idx = i
					}
				}
				found := false
				allInstrs(newFn, func(in ssa.Instruction) {
					call, ok := in.(*ssa.Call)
					if !ok || idx < 0 || idx >= len(call.Call.Args) {
						return
					}
					if mc, ok := call.Call.Value.(*ssa.MakeClosure); ok && mc.Fn == ssa.Value(fn) {
						found = true
						leaves(call.Call.Args[idx], newFn, seen, out)
					}
				})
				if found {
					return
				}
			}
		}
		*out = append(*out, v)
	}
	for _, d := range deltas {
		sd := side[d.field]
		want := lp
		wantField, sideName := "X", "left"
		if sd == "R" {
			want, wantField, sideName = rp, "Y", "right"
		}
		key := fmt.Sprintf("%s:%s advances with the %s position", name, d.field, sideName)
		paired, wrong := false, false
		for _, in := range d.st.Block().Instrs {
			switch x := in.(type) {
			case *ssa.Store:
				cl := cell(x.Addr)
				if cl == nil {
					continue
				}
				if bo, ok := x.Val.(*ssa.BinOp); ok && bo.Op == token.ADD && (bo.Y == d.d || sym(bo.Y) == sym(d.d)) {
					if a, ok := loadAddr(bo.X); ok && cell(a) == cl {
						if cl == want {
							paired = true
						} else {
							wrong = true
						}
					}
				}
			case *ssa.BinOp:
				if x.Op == token.ADD && (x.Y == d.d || sym(x.Y) == sym(d.d)) {
					if ph, ok := x.X.(*ssa.Phi); ok {
						if ssa.Value(ph) == want {
							paired = true
						} else if isIntType(ph.Type()) && (ssa.Value(ph) == lp || ssa.Value(ph) == rp) {
							wrong = true
						}
					}
				}
			}
		}
		var ls []ssa.Value
		leaves(d.d, d.fn, map[ssa.Value]bool{}, &ls)
		amountOK := len(ls) > 0
		amt := ""
		for _, l := range ls {
			if isConstInt(l, 0) {
				continue
			}
			okLeaf := false
			if ln, ok := isBuiltinCall(l, "len"); ok {
				if _, f := loadedField(ln.Call.Args[0]); f != nil && f.Name() == wantField && isEditType(f.Pkg().Scope().Lookup("Edit").Type()) {
					okLeaf = true
				}
			}
			if !okLeaf {
				amountOK = false
				amt = ksym(l)
			}
		}
		switch {
		case !paired && wrong:
			c.bad("R-LR-MIRROR", key, d.st.Pos(), "the "+sideName+" end of the chunk is advanced together with the OTHER side's running position: the chunk range and the position it was started from drift apart")
		case !paired:
			c.bad("R-LR-MIRROR", key, d.st.Pos(), "the "+sideName+" end of the chunk is advanced without advancing the "+sideName+" running position by the same amount in the same block")
		case !amountOK:
			c.bad("R-LR-MIRROR", key, d.st.Pos(), "the "+sideName+" range is advanced by "+amt+", not by the number of "+wantField+" lines of the edit")
		default:
			c.ok("R-LR-MIRROR", key, d.st.Pos(), "paired with the same advance of the "+sideName+" position; amount is len(e."+wantField+") or 0")
		}
	}
}

// ruleTrimSide: when overlapping context is cut in UnifyChunks, the trailing
// context of the previous chunk loses its TAIL (keeps a prefix) and the leading
// context of the current chunk loses its HEAD (keeps a suffix).
func ruleTrimSide(c *Ctx) {
	P := c.P
	unify := P.Func("mdiff", "", "UnifyChunks")
	if unify == nil {
		c.undecided("ANCHOR", "mdiff.UnifyChunks", 0, "not found")
		return
	}
	c.rule("R-TRIM-SIDE", 2, "overlap is cut from the tail of the trailing context and from the head of the leading context")
	c.sawFn(fnName(unify))
	usc := buildCallScope(unify)
	// position of an edit pointer: "last" if every PtrAt/At leaf has index -1, "first" if 0
	var where func(v ssa.Value, seen map[ssa.Value]bool) string
	where = func(v ssa.Value, seen map[ssa.Value]bool) string {
		if seen[v] {
			return ""
		}
		seen[v] = true
		switch x := v.(type) {
		case *ssa.Phi:
			res := ""
			for _, e := range x.Edges {
				w := where(e, seen)
				if w == "" {
					continue
				}
				if res != "" && res != w {
					return "?"
				}
				res = w
			}
			return res
		case *ssa.Parameter:
			// a helper's parameter: where do the arguments point?
			res := ""
			for _, a := range usc.paramArgs(x) {
				w := where(a, seen)
				if w == "" {
					continue
				}
				if res != "" && res != w {
					return "?"
				}
				res = w
			}
			if res == "" {
				return "?"
			}
			return res
		case *ssa.Extract:
			// a result of a helper that hands the (possibly re-fetched) edit pointers back
			if call, ok := x.Tuple.(*ssa.Call); ok {
				if cal := origin(staticCallee(&call.Call)); cal != nil && cal.Blocks != nil {
					res := ""
					bad := false
					allInstrs(cal, func(in ssa.Instruction) {
						if ret, ok := in.(*ssa.Return); ok && x.Index < len(ret.Results) {
							w := where(ret.Results[x.Index], seen)
							if w == "" {
								return
							}
							if res != "" && res != w {
								bad = true
							}
							res = w
						}
					})
					if bad || res == "" {
						return "?"
					}
					return res
				}
			}
		case *ssa.Call:
			if cal := staticCallee(&x.Call); cal != nil && (cal.Name() == "PtrAt" || cal.Name() == "At") && len(x.Call.Args) == 2 {
				if k, ok := constInt(x.Call.Args[1]); ok {
					if k == -1 {
						return "last"
					}
					if k == 0 {
						return "first"
					}
				}
			}
			// a private accessor of the package (lastEdit(es) = &es[len(es)-1] or nil): where its returns point
			if cal := origin(staticCallee(&x.Call)); cal != nil && cal.Blocks != nil && cal.Pkg != nil && cal.Pkg.Pkg.Path() == unify.Pkg.Pkg.Path() && cal.Signature.Results().Len() == 1 {
				res, bad := "", false
				allInstrs(cal, func(in ssa.Instruction) {
					ret, ok := in.(*ssa.Return)
					if !ok || isNilConst(ret.Results[0]) {
						return
					}
					w := where(ret.Results[0], seen)
					if w == "" {
						return
					}
					if res != "" && res != w {
						bad = true
					}
					res = w
				})
				if !bad && res != "" {
					return res
				}
			}
		case *ssa.IndexAddr:
			if k, ok := constInt(x.Index); ok && k == 0 {
				return "first"
			}
			if bo, ok := x.Index.(*ssa.BinOp); ok && bo.Op == token.SUB && isConstInt(bo.Y, 1) {
				if _, ok := isBuiltinCall(bo.X, "len"); ok {
					return "last"
				}
			}
		}
		return "?"
	}
	n := 0
	for _, ufn := range usc.fns {
		allInstrs(ufn, func(in ssa.Instruction) {
			st, ok := in.(*ssa.Store)
			if !ok {
				return
			}
			fa, ok := st.Addr.(*ssa.FieldAddr)
			if !ok || !isEditType(fa.X.Type()) {
				return
			}
			sl, ok := st.Val.(*ssa.Slice)
			if !ok {
				return
			}
			if b2, _ := loadedField(sl.X); b2 != fa.X {
				return
			}
			n++
			w := where(fa.X, map[ssa.Value]bool{})
			keepsPrefix := sl.Low == nil && sl.High != nil
			keepsSuffix := sl.Low != nil && sl.High == nil
			key := "mdiff.UnifyChunks:trim " + w + " edit"
			switch w {
			case "last":
				c.judge(keepsPrefix, "R-TRIM-SIDE", key, st.Pos(), "the previous chunk's trailing context keeps its first lines", "the previous chunk's trailing context is cut at the wrong end: the overlapping lines are its LAST ones, so a prefix must be kept, but the code keeps "+ksym(sl))
			case "first":
				c.judge(keepsSuffix, "R-TRIM-SIDE", key, st.Pos(), "the current chunk's leading context keeps its last lines", "the current chunk's leading context is cut at the wrong end: the overlapping lines are its FIRST ones, so a suffix must be kept, but the code keeps "+ksym(sl))
			default:
				c.undecided("R-TRIM-SIDE", key, st.Pos(), "cannot tell whether the trimmed edit is the first or the last of its chunk")
			}
		})
	}
	if n == 0 {
		c.undecided("R-TRIM-SIDE", "mdiff.UnifyChunks", unify.Pos(), "no context trimming found")
	}
}

func isBuiltinCall2(in ssa.Instruction, name string) (*ssa.Call, bool) {
	v, ok := in.(ssa.Value)
	if !ok {
		return nil, false
	}
	return isBuiltinCall(v, name)
}

var _ = constant.MakeBool

// ruleBoundSide (an inconsistent-belief rule): an index into one slice field of a struct is tested against the
// LENGTH OF A SIBLING slice field of the same struct and never against its own.  Left/Right are walked in
// lockstep with separate positions; a bound taken from the wrong side either panics or cuts context short.
func ruleBoundSide(c *Ctx, pkg string) {
	c.rule("R-BOUND-SIDE", 2, "an index into a slice field is bounded by the length of that field, not only by a sibling field's length")
	for _, fn := range c.P.PkgFuncs(pkg) {
		name := fnName(fn)
		// lower bounds: where two sibling fields are indexed in one block and one index is known to be ≥ 0 by a
		// dominating test while the other is not tested from below at all, the missing test is reported (an index
		// that walks backwards needs it on both sides)
		type lowAcc struct {
			in    ssa.Instruction
			f     *types.Var
			idx   ssa.Value
			lower bool
		}
		perBlock := map[*ssa.BasicBlock][]lowAcc{}
		defer func(fn *ssa.Function, name string) {
			for _, accs := range perBlock {
				for _, a := range accs {
					if a.lower {
						continue
					}
					for _, b := range accs {
						if b.lower && !sameField(a.f, b.f) && a.idx != b.idx {
							c.sawFn(name)
							c.bad("R-BOUND-SIDE", fmt.Sprintf("%s:%s[%s] lower bound", name, a.f.Name(), ksym(a.idx)), a.in.Pos(), fmt.Sprintf("the index into .%s is tested against 0 before this access, the index into .%s is not: walking backwards, the untested side runs below 0 and the access panics", b.f.Name(), a.f.Name()))
							break
						}
					}
				}
			}
		}(fn, name)
		allInstrs(fn, func(in ssa.Instruction) {
			var xs, idx ssa.Value
			switch x := in.(type) {
			case *ssa.IndexAddr:
				xs, idx = x.X, x.Index
			case *ssa.Index:
				xs, idx = x.X, x.Index
			default:
				return
			}
			base, f := loadedField(xs)
			if f == nil {
				return
			}
			if _, isSlice := f.Type().Underlying().(*types.Slice); !isSlice {
				return
			}
			if _, isConst := idx.(*ssa.Const); isConst {
				return
			}
			{
				lower := false
				for _, cm := range cmpsAt(in.Block()) {
					x, y, op := cm.X, cm.Y, cm.Op
					if y == idx {
						x, y, op = y, x, flipOp(op)
					}
					if x != idx {
						continue
					}
					if k, ok := constInt(y); ok && ((op == token.GEQ && k >= 0) || (op == token.GTR && k >= -1)) {
						lower = true
					}
				}
				perBlock[in.Block()] = append(perBlock[in.Block()], lowAcc{in, f, idx, lower})
			}
			own, sibling := false, ""
			ownStrict, ownUpper := false, false
			beyond := false
			for _, cm := range cmpsAt(in.Block()) {
				for pi, pr := range [][2]ssa.Value{{cm.X, cm.Y}, {cm.Y, cm.X}} {
					if pr[0] != idx {
						continue
					}
					ln, ok := isBuiltinCall(pr[1], "len")
					if !ok {
						continue
					}
					b2, g := loadedField(ln.Call.Args[0])
					if g == nil || sym(b2) != sym(base) {
						continue
					}
					if sameField(g, f) {
						op := cm.Op
						if pi == 1 {
							op = flipOp(op)
						}
						// idx op len(own): only a test that holds the index BELOW the length is a bound (on the
						// path where idx >= len is known to hold, the access is simply out of range)
						switch op {
						case token.LSS:
							own, ownStrict, ownUpper = true, true, true
						case token.LEQ:
							own, ownUpper = true, true
						case token.GEQ, token.GTR:
							beyond = true
						}
					} else if _, isSlice := g.Type().Underlying().(*types.Slice); isSlice {
						sibling = g.Name()
					}
				}
			}
			if !own && sibling == "" && !beyond {
				// no length test at all on this index — unless another value is held below THIS field's length on
				// the way here: then the bound was meant for this access and is applied to the wrong index
				for _, cm := range cmpsAt(in.Block()) {
					x, y, op := cm.X, cm.Y, cm.Op
					if _, isLen := isBuiltinCall(x, "len"); isLen {
						x, y, op = y, x, flipOp(op)
					}
					ln, isLen := isBuiltinCall(y, "len")
					if !isLen || x == idx || sym(x) == sym(idx) || (op != token.LSS && op != token.LEQ) {
						continue // (the same index recomputed is the same index)
					}
					if b2, g := loadedField(ln.Call.Args[0]); g != nil && sameField(g, f) && sym(b2) == sym(base) {
						if _, isK := x.(*ssa.Const); isK {
							continue
						}
						c.sawFn(name)
						c.bad("R-BOUND-SIDE", fmt.Sprintf("%s:%s[%s]", name, f.Name(), ksym(idx)), in.Pos(), fmt.Sprintf("on the way to this access %s is held below len(.%s), but the index used is %s, which is not tested against that length at all: the bound is applied to the wrong index", ksym(x), f.Name(), ksym(idx)))
						return
					}
				}
				return // no length test at all on this index: not this rule's business
			}
			c.sawFn(name)
			key := fmt.Sprintf("%s:%s[%s]", name, f.Name(), ksym(idx))
			if beyond && !own {
				c.bad("R-BOUND-SIDE", key, in.Pos(), "the access to ."+f.Name()+" is made on the path where its index is known to be ≥ len(."+f.Name()+") (the bounds test and the access are joined by the wrong connective): it panics whenever that path is taken")
				return
			}
			if own && ownUpper && !ownStrict {
				c.bad("R-BOUND-SIDE", key, in.Pos(), "the index into ."+f.Name()+" is only known to be ≤ len(."+f.Name()+"), not < it: the position one past the end is let through and the access panics")
				return
			}
			c.judge(own, "R-BOUND-SIDE", key, in.Pos(), "bounded by its own length", "the index into ."+f.Name()+" is tested against len(."+sibling+") and never against len(."+f.Name()+"): the bound is taken from the wrong side")
		})
	}
}

// ruleSiblingGuard (an inconsistent-belief rule): when elements of two sibling
// slice fields are compared with each other (d.Left[p] against d.Right[q]),
// the guards that dominate the comparison must constrain both indices or
// neither.  "Constrain" is read off the variables the expressions are built
// from: the quantities only p depends on, and the quantities only q depends
// on, must both occur in some dominating comparison if one of them does.  A
// loop that bounds the walk by one side's distance only indexes the other side
// out of range as soon as the two distances differ.
func ruleSiblingGuard(c *Ctx, pkg string) {
	c.rule("R-SIBLING-GUARD", 1, "where elements of two sibling slice fields are compared, the dominating guards constrain both indices or neither")
	var roots func(v ssa.Value, out map[string]bool, seen map[ssa.Value]bool)
	roots = func(v ssa.Value, out map[string]bool, seen map[ssa.Value]bool) {
		if v == nil || seen[v] {
			return
		}
		seen[v] = true
		switch x := v.(type) {
		case *ssa.Const:
		case *ssa.Parameter:
			out["param "+x.Name()] = true
		case *ssa.BinOp:
			roots(x.X, out, seen)
			roots(x.Y, out, seen)
		case *ssa.Phi:
			// a merged or loop-carried value is a quantity of its own: a fact about one of its inputs
			// (the value before the loop) is not a fact about it
			out[phiID(x)] = true
		case *ssa.UnOp:
			if _, f := loadedField(x); f != nil {
				out["field "+f.Name()] = true
				return
			}
			roots(x.X, out, seen)
		case *ssa.Convert:
			roots(x.X, out, seen)
		case *ssa.ChangeType:
			roots(x.X, out, seen)
		case *ssa.Call:
			for _, a := range x.Call.Args {
				roots(a, out, seen)
			}
		case *ssa.Extract:
			roots(x.Tuple, out, seen)
		default:
			out[fmt.Sprintf("%T %s", v, v.Name())] = true
		}
	}
	// elem: v is an element read xs[idx] of a slice that is a struct field or a parameter;
	// id names the slice, label prints it
	type elemRef struct {
		id, label string
		idx       ssa.Value
	}
	elem := func(v ssa.Value) (elemRef, bool) {
		var xs, idx ssa.Value
		switch x := v.(type) {
		case *ssa.UnOp:
			ia, isIA := x.X.(*ssa.IndexAddr)
			if !isIA || x.Op != token.MUL {
				return elemRef{}, false
			}
			xs, idx = ia.X, ia.Index
		case *ssa.Index:
			xs, idx = x.X, x.Index
		default:
			return elemRef{}, false
		}
		if !sliceLike(xs.Type()) {
			return elemRef{}, false
		}
		if b, fld := loadedField(xs); fld != nil {
			return elemRef{"field " + fld.Name(), sym(b) + "." + fld.Name(), idx}, true
		}
		if p, ok := xs.(*ssa.Parameter); ok {
			return elemRef{"param " + p.Name(), p.Name(), idx}, true
		}
		if ph, ok := xs.(*ssa.Phi); ok && fromParams(ph, map[ssa.Value]bool{}) {
			// a parameter possibly exchanged with its sibling (as, bs = bs, as) or shortened in a loop
			lbl := ph.Comment
			if lbl == "" {
				lbl = ph.Name()
			}
			return elemRef{phiID(ph), lbl, idx}, true
		}
		return elemRef{}, false
	}
	judgePair := func(name string, n *int, at ssa.Instruction, e1, e2 elemRef) {
		if e1.id == e2.id {
			return
		}
		ip, iq := map[string]bool{}, map[string]bool{}
		roots(e1.idx, ip, map[ssa.Value]bool{})
		roots(e2.idx, iq, map[ssa.Value]bool{})
		// the slice's own length inside its index (xs[len(xs)-1-k]) is not a variable of the walk
		delete(ip, e1.id)
		delete(iq, e2.id)
		rp, rq := map[string]bool{e1.id: true}, map[string]bool{e2.id: true}
		for r := range ip {
			rp[r] = true
		}
		for r := range iq {
			rq[r] = true
		}
		var ownP, ownQ []string
		for r := range rp {
			if !rq[r] {
				ownP = append(ownP, r)
			}
		}
		for r := range rq {
			if !rp[r] {
				ownQ = append(ownQ, r)
			}
		}
		// a dominating comparison constrains a side when it relates something only that side depends on
		// to something its index is computed from; a comparison relating the two slices to each other
		// (len(a) == len(b)) links the sides: a bound on one then bounds the other
		gp, gq, linked := false, false, false
		meets := func(g map[string]bool, set []string) bool {
			for _, r := range set {
				if g[r] {
					return true
				}
			}
			return false
		}
		meetsIdx := func(g, idx map[string]bool) bool {
			for r := range idx {
				if g[r] {
					return true
				}
			}
			return false
		}
		for _, cm := range cmpsAt(at.Block()) {
			g := map[string]bool{}
			roots(cm.X, g, map[ssa.Value]bool{})
			roots(cm.Y, g, map[ssa.Value]bool{})
			if g[e1.id] && g[e2.id] {
				linked = true
			}
			if meets(g, ownP) && meetsIdx(g, ip) {
				gp = true
			}
			if meets(g, ownQ) && meetsIdx(g, iq) {
				gq = true
			}
		}
		if linked {
			gp, gq = gp || gq, gp || gq
		}
		sort.Strings(ownP)
		sort.Strings(ownQ)
		*n++
		c.sawFn(name)
		key := fmt.Sprintf("%s:%s[·] ~ %s[·] #%d", name, e1.label, e2.label, *n)
		switch {
		case gp == gq:
			c.ok("R-SIBLING-GUARD", key, at.Pos(), fmt.Sprintf("both sides guarded: %v", gp))
		case gq:
			c.bad("R-SIBLING-GUARD", key, at.Pos(), fmt.Sprintf("the guards before this comparison constrain the index into %s (through %v) but nothing the index into %s alone depends on (%v): that index can run out of range when the two sides differ", e2.label, ownQ, e1.label, ownP))
		default:
			c.bad("R-SIBLING-GUARD", key, at.Pos(), fmt.Sprintf("the guards before this comparison constrain the index into %s (through %v) but nothing the index into %s alone depends on (%v): that index can run out of range when the two sides differ", e1.label, ownP, e2.label, ownQ))
		}
	}
	for _, fn := range c.P.PkgFuncs(pkg) {
		name := fnName(fn)
		n := 0
		allInstrs(fn, func(in ssa.Instruction) {
			switch x := in.(type) {
			case *ssa.BinOp:
				if x.Op != token.EQL && x.Op != token.NEQ {
					return
				}
				e1, ok1 := elem(x.X)
				e2, ok2 := elem(x.Y)
				if ok1 && ok2 {
					judgePair(name, &n, in, e1, e2)
				}
			case *ssa.Call:
				// an equality or comparison callback applied to one element of each
				if len(x.Call.Args) != 2 || x.Call.IsInvoke() {
					return
				}
				if staticCallee(&x.Call) != nil {
					if _, isClosure := x.Call.Value.(*ssa.MakeClosure); !isClosure {
						return
					}
				}
				e1, ok1 := elem(x.Call.Args[0])
				e2, ok2 := elem(x.Call.Args[1])
				if ok1 && ok2 {
					judgePair(name, &n, in, e1, e2)
				}
			}
		})
	}
}

// sliceLike: a slice or string type, or a type parameter whose constraint has
// a slice core type (Slice ~[]T).
func sliceLike(t types.Type) bool {
	if tp, ok := t.(*types.TypeParam); ok {
		ifc, ok := tp.Constraint().Underlying().(*types.Interface)
		if !ok {
			return false
		}
		for i := 0; i < ifc.NumEmbeddeds(); i++ {
			if u, ok := ifc.EmbeddedType(i).(*types.Union); ok {
				for j := 0; j < u.Len(); j++ {
					if _, isSlice := u.Term(j).Type().Underlying().(*types.Slice); isSlice {
						return true
					}
				}
			}
		}
		return false
	}
	switch u := t.Underlying().(type) {
	case *types.Slice:
		return true
	case *types.Basic:
		return u.Info()&types.IsString != 0
	}
	return false
}

// fromParams: v is a parameter, or a φ / re-slice whose inputs all are.
func fromParams(v ssa.Value, seen map[ssa.Value]bool) bool {
	if seen[v] {
		return true
	}
	seen[v] = true
	switch x := v.(type) {
	case *ssa.Parameter:
		return true
	case *ssa.Phi:
		for _, e := range x.Edges {
			if !fromParams(e, seen) {
				return false
			}
		}
		return true
	case *ssa.Slice:
		return fromParams(x.X, seen)
	}
	return false
}

func phiID(x *ssa.Phi) string { return "φ" + x.Comment + "#" + x.Name() }

// ruleCursorFamilies: the edit-script builder walks three sequences — lhs, rhs
// and their common subsequence — each with its own cursor.  Cursor variables
// that flow into one another (through φ, or by adding a constant or a plain
// counter) form a family.  A family that indexes or bounds spans of an input
// must not also index a sequence that is neither input: a cursor of lhs that
// is (re)started from the cursor of the common subsequence points behind or
// ahead of the unconsumed part of lhs.
func ruleCursorFamilies(c *Ctx, fn *ssa.Function, lhs, rhs *ssa.Parameter) {
	parent := map[ssa.Value]ssa.Value{}
	var find func(v ssa.Value) ssa.Value
	find = func(v ssa.Value) ssa.Value {
		p, ok := parent[v]
		if !ok || p == v {
			parent[v] = v
			return v
		}
		r := find(p)
		parent[v] = r
		return r
	}
	union := func(a, b ssa.Value) { parent[find(a)] = find(b) }
	isCounter := func(v ssa.Value) bool {
		ph, ok := v.(*ssa.Phi)
		if !ok {
			return false
		}
		for _, e := range ph.Edges {
			if _, isK := constInt(e); isK {
				continue
			}
			if bo, ok := e.(*ssa.BinOp); ok && (bo.Op == token.ADD || bo.Op == token.SUB) && bo.X == ssa.Value(ph) {
				if _, isK := constInt(bo.Y); isK {
					continue
				}
			}
			return false
		}
		return true
	}
	isInt := func(v ssa.Value) bool { return isIntType(v.Type()) }
	allInstrs(fn, func(in ssa.Instruction) {
		switch x := in.(type) {
		case *ssa.Phi:
			if !isInt(x) {
				return
			}
			for _, e := range x.Edges {
				if _, isK := constInt(e); !isK {
					union(x, e)
				}
			}
		case *ssa.BinOp:
			if !isInt(x) || (x.Op != token.ADD && x.Op != token.SUB) {
				return
			}
			_, xk := constInt(x.X)
			_, yk := constInt(x.Y)
			switch {
			case !xk && !isCounter(x.X):
				union(x, x.X)
			case !yk && !isCounter(x.Y) && x.Op == token.ADD:
				union(x, x.Y)
			}
		}
	})
	rootOf := func(v ssa.Value) string {
		for {
			switch x := v.(type) {
			case *ssa.Slice:
				v = x.X
				continue
			case *ssa.ChangeType:
				v = x.X
				continue
			}
			break
		}
		switch v {
		case ssa.Value(lhs):
			return "lhs"
		case ssa.Value(rhs):
			return "rhs"
		}
		if !sliceLike(v.Type()) {
			return ""
		}
		return "other: " + ksym(v)
	}
	uses := map[ssa.Value]map[string]token.Pos{}
	note := func(idx ssa.Value, xs ssa.Value, pos token.Pos) {
		if idx == nil {
			return
		}
		if _, isK := constInt(idx); isK {
			return
		}
		r := rootOf(xs)
		if r == "" {
			return
		}
		f := find(idx)
		if uses[f] == nil {
			uses[f] = map[string]token.Pos{}
		}
		if _, ok := uses[f][r]; !ok {
			uses[f][r] = pos
		}
	}
	allInstrs(fn, func(in ssa.Instruction) {
		switch x := in.(type) {
		case *ssa.IndexAddr:
			note(x.Index, x.X, x.Pos())
		case *ssa.Index:
			note(x.Index, x.X, x.Pos())
		case *ssa.Slice:
			note(x.Low, x.X, x.Pos())
			note(x.High, x.X, x.Pos())
		}
	})
	n := 0
	var fams []ssa.Value
	for f := range uses {
		fams = append(fams, f)
	}
	sort.Slice(fams, func(i, j int) bool { return fams[i].Pos() < fams[j].Pos() })
	for _, f := range fams {
		u := uses[f]
		_, l := u["lhs"]
		_, r := u["rhs"]
		if !l && !r {
			continue
		}
		n++
		side := "lhs"
		if !l {
			side = "rhs"
		}
		key := fmt.Sprintf("%s:cursor family of %s #%d", fnName(fn), side, n)
		var foreign []string
		var pos token.Pos
		for k, p := range u {
			if strings.HasPrefix(k, "other: ") {
				foreign = append(foreign, strings.TrimPrefix(k, "other: "))
				pos = p
			}
		}
		sort.Strings(foreign)
		if len(foreign) > 0 {
			c.bad("R-EDIT-SPAN", key, pos, fmt.Sprintf("a cursor that walks %s shares its value flow with the cursor that indexes %v (neither input): positions in the common subsequence are used as positions in %s, so spans already consumed can be emitted again", side, foreign, side))
		} else {
			c.ok("R-EDIT-SPAN", key, f.Pos(), "indexes the inputs only")
		}
	}
}

// ruleContextDisjoint: the two context spans findContext returns do not share a backing array.
func ruleContextDisjoint(c *Ctx, findCtx *ssa.Function) {
	c.sawFn(fnName(findCtx))
	roots := func(idx int) map[ssa.Value]bool {
		out := map[ssa.Value]bool{}
		seen := map[ssa.Value]bool{}
		var walk func(v ssa.Value)
		walk = func(v ssa.Value) {
			if v == nil || seen[v] {
				return
			}
			seen[v] = true
			switch x := v.(type) {
			case *ssa.Slice:
				walk(x.X)
			case *ssa.Phi:
				for _, e := range x.Edges {
					walk(e)
				}
			case *ssa.ChangeType:
				walk(x.X)
			case *ssa.UnOp:
				if x.Op == token.MUL {
					if al, ok := x.X.(*ssa.Alloc); ok {
						for _, r := range referrersOf(al) {
							if st, ok := r.(*ssa.Store); ok && st.Addr == ssa.Value(al) {
								walk(st.Val)
							}
						}
						return
					}
				}
				out[v] = true
			case *ssa.Call:
				if ap, ok := isBuiltinCall(x, "append"); ok {
					walk(ap.Call.Args[0])
					return
				}
				out[v] = true
			case *ssa.Const:
			default:
				out[v] = true
			}
		}
		allInstrs(findCtx, func(in ssa.Instruction) {
			if ret, ok := in.(*ssa.Return); ok && idx < len(ret.Results) {
				walk(ret.Results[idx])
			}
		})
		return out
	}
	r0, r1 := roots(0), roots(1)
	var shared []string
	for v := range r0 {
		if r1[v] {
			shared = append(shared, ksym(v))
		}
	}
	c.judge(len(shared) == 0, "R-CONTEXT-FRESH", "mdiff.(*Diff).findContext:disjoint results", findCtx.Pos(), "leading and trailing context are separate allocations", "the leading and trailing context spans share a backing array ("+strings.Join(shared, ",")+"): extending one in place (Unify's context merge) overwrites the other")
}

// ruleUnifyOrder: two order-of-operations rules on the context merge.
//
// R-DROP-GUARDED: removing a whole edit from a chunk's list (list = list[1:] or
// list[:len-1]) loses its lines unless the overlap is known to cover it — a
// dominating comparison `… >= len(edit.X)` — or its span has just been appended
// to another edit.
//
// R-JOIN-LAST: once the two boundary context edits have been joined into one
// (X = append(X, other.X...)), that iteration does not trim a span any more:
// trimming is defined on the two separate edits, and cutting the joined edit
// removes lines from the wrong place.
func ruleUnifyOrder(c *Ctx) {
	P := c.P
	c.rule("R-DROP-GUARDED", 1, "an edit is removed from a chunk's list only under a comparison that bounds its length, or after its span has been appended to another edit")
	c.rule("R-JOIN-LAST", 1, "after the boundary context edits are joined, the same iteration trims no span")
	unify := P.Func("mdiff", "", "UnifyChunks")
	chunkT := P.Named("mdiff", "Chunk")
	if unify == nil || chunkT == nil {
		c.undecided("ANCHOR", "mdiff.UnifyChunks", 0, "not found")
		return
	}
	var listF *types.Var
	for _, f := range structFields(chunkT) {
		if _, ok := f.Type().Underlying().(*types.Slice); ok {
			listF = f
		}
	}
	editT := P.Named("slice", "Edit")
	if listF == nil || editT == nil {
		c.undecided("ANCHOR", "mdiff.Chunk edit list / slice.Edit", 0, "not found")
		return
	}
	isSpanField := func(f *types.Var) bool {
		if f == nil {
			return false
		}
		_, isSlice := f.Type().Underlying().(*types.Slice)
		if !isSlice {
			return false
		}
		for _, g := range structFields(editT) {
			if sameField(f, g) {
				return true
			}
		}
		return false
	}
	// join: store span ← append(load span of the same edit, load span of another edit...)
	isJoin := func(in ssa.Instruction) bool {
		st, ok := in.(*ssa.Store)
		if !ok {
			return false
		}
		fa, ok := st.Addr.(*ssa.FieldAddr)
		if !ok {
			return false
		}
		if _, f := fieldVarOf(fa); !isSpanField(f) {
			return false
		}
		ap, ok := isBuiltinCall(st.Val, "append")
		if !ok || len(ap.Call.Args) != 2 {
			return false
		}
		_, f1 := loadedField(ap.Call.Args[0])
		_, f2 := loadedField(ap.Call.Args[1])
		return isSpanField(f1) && isSpanField(f2)
	}
	isTrim := func(in ssa.Instruction) bool {
		st, ok := in.(*ssa.Store)
		if !ok {
			return false
		}
		fa, ok := st.Addr.(*ssa.FieldAddr)
		if !ok {
			return false
		}
		if _, f := fieldVarOf(fa); !isSpanField(f) {
			return false
		}
		sl, ok := st.Val.(*ssa.Slice)
		if !ok || (sl.Low == nil && sl.High == nil) {
			return false
		}
		_, f2 := loadedField(sl.X)
		return isSpanField(f2)
	}
	nDrop, nJoin := 0, 0
	for _, fn := range buildCallScope(unify).fns {
		fn := fn
		name := fnName(fn)
		allInstrs(fn, func(in ssa.Instruction) {
			st, ok := in.(*ssa.Store)
			if !ok {
				return
			}
			// ---- R-JOIN-LAST
			if isJoin(in) {
				nJoin++
				c.sawFn(name)
				// the innermost loop header around the join
				var hdr *ssa.BasicBlock
				for d := st.Block(); d != nil; d = d.Idom() {
					for _, p := range d.Preds {
						if d.Dominates(p) {
							hdr = d
						}
					}
					if hdr != nil {
						break
					}
				}
				late, wit := reachesWithout(P, st, false, isTrim, func(in2 ssa.Instruction) bool { return hdr != nil && in2.Block() == hdr })
				c.judge(!late, "R-JOIN-LAST", fmt.Sprintf("%s:join #%d", name, nJoin), st.Pos(), "no span is trimmed after the join in the same iteration", "a span is trimmed after the two boundary context edits have been joined ("+wit+"): the overlap is cut from the end of the joined edit instead of from the duplicated lines in its middle, so line counts still match the ranges but the context lines are wrong")
				return
			}
			// ---- R-DROP-GUARDED
			fa, ok := st.Addr.(*ssa.FieldAddr)
			if !ok {
				return
			}
			if _, f := fieldVarOf(fa); !sameField(f, listF) {
				return
			}
			sl, ok := st.Val.(*ssa.Slice)
			if !ok {
				return
			}
			if _, f2 := loadedField(sl.X); f2 == nil || !sameField(f2, listF) {
				return
			}
			dropFirst := sl.High == nil && isConstInt(sl.Low, 1)
			dropLast := false
			if sl.Low == nil && sl.High != nil {
				if bo, ok := sl.High.(*ssa.BinOp); ok && bo.Op == token.SUB && isConstInt(bo.Y, 1) {
					if ln, ok := isBuiltinCall(bo.X, "len"); ok {
						if _, f3 := loadedField(ln.Call.Args[0]); f3 != nil && sameField(f3, listF) {
							dropLast = true
						}
					}
				}
			}
			if !dropFirst && !dropLast {
				return
			}
			nDrop++
			c.sawFn(name)
			what := "first"
			if dropLast {
				what = "last"
			}
			key := fmt.Sprintf("%s:%s edit dropped #%d", name, what, nDrop)
			justified := ""
			// a dominating relational test that involves the length of an edit's span (lap >= len(e.X),
			// len(e.X)-lap <= 0, …) decides whether the whole edit goes
			var mentionsSpanLen func(v ssa.Value, d int) bool
			mentionsSpanLen = func(v ssa.Value, d int) bool {
				if d > 4 {
					return false
				}
				if ln, ok := isBuiltinCall(v, "len"); ok {
					_, f4 := loadedField(ln.Call.Args[0])
					return isSpanField(f4)
				}
				if bo, ok := v.(*ssa.BinOp); ok && (bo.Op == token.ADD || bo.Op == token.SUB) {
					return mentionsSpanLen(bo.X, d+1) || mentionsSpanLen(bo.Y, d+1)
				}
				return false
			}
			// … and it is the span of the very edit that goes: the X span (context lives in X) of the last element
			// of this list when the last is dropped, of the first when the first is
			wrongEdit := ""
			var spanOf func(v ssa.Value, d int) (ssa.Value, *types.Var)
			spanOf = func(v ssa.Value, d int) (ssa.Value, *types.Var) {
				if d > 4 {
					return nil, nil
				}
				if ln, ok := isBuiltinCall(v, "len"); ok {
					if b4, f4 := loadedField(ln.Call.Args[0]); isSpanField(f4) {
						return b4, f4
					}
					return nil, nil
				}
				if bo, ok := v.(*ssa.BinOp); ok && (bo.Op == token.ADD || bo.Op == token.SUB) {
					if b4, f4 := spanOf(bo.X, d+1); f4 != nil {
						return b4, f4
					}
					return spanOf(bo.Y, d+1)
				}
				return nil, nil
			}
			for _, cm := range cmpsAt(st.Block()) {
				switch cm.Op {
				case token.GEQ, token.GTR, token.LEQ, token.LSS, token.EQL:
					if mentionsSpanLen(cm.X, 0) || mentionsSpanLen(cm.Y, 0) {
						justified = "a dominating test on the length of the edit's span decides it"
						eb, ef := spanOf(cm.X, 0)
						if ef == nil {
							eb, ef = spanOf(cm.Y, 0)
						}
						if ef != nil {
							if ef.Name() != "X" {
								wrongEdit = "the test that decides it measures the ." + ef.Name() + " span; the context lines of an Emit edit are its .X span"
							}
							// where the tested edit comes from
							var lv []ssa.Value
							phiLeaves(eb, nil, map[ssa.Value]bool{}, &lv)
							for _, l := range lv {
								call, ok := l.(*ssa.Call)
								if !ok || len(call.Call.Args) != 2 {
									continue
								}
								if cal := call.Call.StaticCallee(); cal == nil || origin(cal).Name() != "PtrAt" {
									continue
								}
								k, isK := constInt(call.Call.Args[1])
								lb, lf := loadedField(call.Call.Args[0])
								if !isK || lf == nil || !sameField(lf, listF) {
									continue
								}
								if sym(lb) != sym(fa.X) {
									wrongEdit = "the test that decides it measures an edit of another chunk (" + ksym(lb) + "), not of the chunk whose list is cut (" + ksym(fa.X) + ")"
								} else if (dropLast && k != -1) || (dropFirst && k != 0) {
									wrongEdit = fmt.Sprintf("the test that decides it measures the edit at position %d of the list, not the %s one, which is the one removed", k, what)
								}
							}
						}
					}
				}
			}
			if wrongEdit != "" {
				c.bad("R-DROP-GUARDED", key, st.Pos(), "the "+what+" edit of a chunk is removed, but "+wrongEdit+": the decision is made on the wrong lines")
				return
			}
			if justified == "" {
				allInstrs(fn, func(in2 ssa.Instruction) {
					if isJoin(in2) && dominatesInstr(in2, st) {
						justified = "its span was appended to the neighbouring edit first"
					}
				})
			}
			if justified == "" {
				// a helper whose parameter bounds the edit at every call site is outside this rule's reach: not judged
				if _, isParam := sl.X.(*ssa.Parameter); isParam {
					return
				}
			}
			c.judge(justified != "", "R-DROP-GUARDED", key, st.Pos(), justified, "the "+what+" edit of a chunk is removed although nothing bounds its length by the overlap and its lines have not been moved to the neighbouring edit: context lines beyond the overlap vanish from the merged chunk")
		})
	}
}

// ruleEmitRun: (a) an Emit edit's span lhs[S : S+m] has its length m counted by a
// loop that compares lhs[P+m] with rhs[Q+m]; P must be S — the run is counted
// where the span starts.  A stale cursor here makes the span too long or
// splits a run into adjacent Emits.  (b) No Edit is constructed under a
// condition on a boolean φ of the main loop that no back edge ever resets to
// false: a "this iteration fused a replace" flag that sticks suppresses every
// later insertion.
func ruleEmitRun(c *Ctx, fn *ssa.Function, lhs, rhs *ssa.Parameter) {
	name := fnName(fn)
	nRun := 0
	for _, l := range editLiterals(fn) {
		k, isK := constInt(l.op)
		// (b) sticky flags, for every literal
		if l.blk != nil {
			for _, f := range factsAt(l.blk) {
				v := f.Cond
				for {
					if u, ok := v.(*ssa.UnOp); ok && u.Op == token.NOT {
						v = u.X
						continue
					}
					break
				}
				ph, ok := v.(*ssa.Phi)
				if !ok {
					continue
				}
				if b, isB := ph.Type().Underlying().(*types.Basic); !isB || b.Kind() != types.Bool {
					continue
				}
				// the φ-web of the flag: sticky when it goes round a loop, is set to true somewhere, and false
				// enters only from outside the loop
				hasBack, setsTrue, resets := false, false, false
				web := map[*ssa.Phi]bool{}
				var visit func(p *ssa.Phi)
				visit = func(p *ssa.Phi) {
					if web[p] {
						return
					}
					web[p] = true
					for i, e := range p.Edges {
						back := p.Block().Dominates(p.Block().Preds[i])
						if back {
							hasBack = true
						}
						isHeader := false
						for j := range p.Edges {
							if p.Block().Dominates(p.Block().Preds[j]) {
								isHeader = true
							}
						}
						switch x := e.(type) {
						case *ssa.Const:
							if x.Value != nil && x.Value.String() == "true" {
								setsTrue = true
							} else if !(isHeader && !back) {
								resets = true // false assigned inside the loop
							}
						case *ssa.Phi:
							visit(x)
						default:
							resets = true // recomputed from other values
						}
					}
				}
				visit(ph)
				if hasBack {
					key := fmt.Sprintf("%s:Edit built under loop flag %s", name, ph.Comment)
					c.judge(!(setsTrue && !resets), "R-EDIT-SPAN", key, l.pos, "the flag is recomputed or cleared every iteration", fmt.Sprintf("an Edit is constructed under the boolean %q, which is set inside the loop and never cleared: after the first time it is set, every later edit guarded by it is suppressed (or forced)", ph.Comment))
				}
			}
		}
		if !isK || k != '=' {
			continue
		}
		xv, ok := l.set["X"]
		if !ok {
			continue
		}
		if ct, ok := xv.(*ssa.ChangeType); ok {
			xv = ct.X
		}
		sl, ok := xv.(*ssa.Slice)
		if !ok || sl.X != ssa.Value(lhs) || sl.Low == nil || sl.High == nil {
			continue
		}
		hi, ok := sl.High.(*ssa.BinOp)
		if !ok || hi.Op != token.ADD {
			continue
		}
		var m ssa.Value
		switch {
		case hi.X == sl.Low || sym(hi.X) == sym(sl.Low):
			m = hi.Y
		case hi.Y == sl.Low || sym(hi.Y) == sym(sl.Low):
			m = hi.X
		default:
			continue
		}
		if _, isPhi := m.(*ssa.Phi); !isPhi {
			continue
		}
		// the counting loop: an index lhs[P+m]
		allInstrs(fn, func(in ssa.Instruction) {
			ia, ok := in.(*ssa.IndexAddr)
			if !ok || ia.X != ssa.Value(lhs) {
				return
			}
			bo, ok := ia.Index.(*ssa.BinOp)
			if !ok || bo.Op != token.ADD {
				return
			}
			var p ssa.Value
			switch {
			case bo.Y == m:
				p = bo.X
			case bo.X == m:
				p = bo.Y
			default:
				return
			}
			nRun++
			c.sawFn(name)
			c.judge(p == sl.Low || sym(p) == sym(sl.Low), "R-EDIT-SPAN", fmt.Sprintf("%s:Emit run counted from the span's start #%d", name, nRun), ia.Pos(), "the run is counted from the offset the Emit span starts at",
				fmt.Sprintf("the run of kept elements is counted from %s, but the Emit span starts at %s: when the two differ (a cursor not advanced on some path) the span covers the wrong elements or a run is split into adjacent Emit edits", ksym(p), ksym(sl.Low)))
		})
	}
}

// ruleMergeTarget: UnifyChunks folds each chunk into the LAST chunk kept so far.
// The chunk whose end is compared with the next chunk's start must therefore be
// re-read from the list of kept chunks on every iteration, or be a variable that
// the loop updates; a value fixed before the loop keeps comparing (and merging)
// with the first chunk after others have been kept apart.
func ruleMergeTarget(c *Ctx) {
	P := c.P
	c.rule("R-MERGE-TARGET", 1, "the chunk a successor is compared and merged with is read from the list of kept chunks each time round, or is a variable updated in the loop")
	unify := P.Func("mdiff", "", "UnifyChunks")
	chunkT := P.Named("mdiff", "Chunk")
	if unify == nil || chunkT == nil {
		c.undecided("ANCHOR", "mdiff.UnifyChunks", 0, "not found")
		return
	}
	isChunkPtr := func(t types.Type) bool {
		p, ok := t.Underlying().(*types.Pointer)
		return ok && isNamedOrigin(p.Elem(), chunkT)
	}
	n := 0
	for _, fn := range buildCallScope(unify).fns {
		fn := fn
		allInstrs(fn, func(in ssa.Instruction) {
			bo, ok := in.(*ssa.BinOp)
			if !ok {
				return
			}
			switch bo.Op {
			case token.LSS, token.LEQ, token.GTR, token.GEQ:
			default:
				return
			}
			bx, fx := loadedField(bo.X)
			by, fy := loadedField(bo.Y)
			if fx == nil || fy == nil || sameField(fx, fy) || !isChunkPtr(bx.Type()) || !isChunkPtr(by.Type()) || bx == by {
				return
			}
			// in a loop?
			inLoop := false
			for d := bo.Block(); d != nil; d = d.Idom() {
				for _, p := range d.Preds {
					if d.Dominates(p) {
						inLoop = true
					}
				}
			}
			if !inLoop {
				return
			}
			// one side is the element the loop is at (changes every iteration), the other the merge target
			judge := func(v ssa.Value) (string, bool) {
				switch x := v.(type) {
				case *ssa.Phi:
					for i, e := range x.Edges {
						if x.Block().Dominates(x.Block().Preds[i]) && e != ssa.Value(x) {
							return "a variable the loop updates", true
						}
					}
					return "", false
				case *ssa.Call, *ssa.UnOp, *ssa.Extract, *ssa.Index:
					if x.(ssa.Instruction).Block() != nil {
						// computed inside the loop?
						b := x.(ssa.Instruction).Block()
						for d := b; d != nil; d = d.Idom() {
							for _, p := range d.Preds {
								if d.Dominates(p) {
									return "read anew inside the loop", true
								}
							}
						}
					}
					return "", false
				case *ssa.Parameter:
					return "a parameter of a helper (judged at the caller)", true
				}
				return "", false
			}
			wx, okx := judge(bx)
			wy, oky := judge(by)
			n++
			c.sawFn(fnName(fn))
			key := fmt.Sprintf("%s:chunks compared #%d", fnName(fn), n)
			if okx && oky {
				c.ok("R-MERGE-TARGET", key, bo.Pos(), wx+" / "+wy)
				return
			}
			fixed := ksym(bx)
			if okx {
				fixed = ksym(by)
			}
			c.bad("R-MERGE-TARGET", key, bo.Pos(), fmt.Sprintf("the loop compares each chunk with %s, a value fixed before the loop: once a chunk has been kept apart, later chunks are still compared with (and merged into) the old one instead of the last chunk kept", fixed))
		})
	}
	if n == 0 {
		c.undecided("R-MERGE-TARGET", "mdiff.UnifyChunks:comparison of neighbouring chunks", unify.Pos(), "no comparison between fields of two chunks found in a loop")
	}
}

// ruleMdiffPairs: a batch of small agreement rules in package mdiff.
//
//   - R-COND-MIRROR: a test on one side's range of a chunk (REnd == RStart) is
//     accompanied, in the same function, by the same test on the other side
//     (LEnd == LStart): "the chunk is empty" is a statement about both ranges.
//   - R-CONTEXT-CONTIGUOUS: in findContext's loops the edge taken when the two
//     lines differ leaves the loop: context is a contiguous run next to the chunk.
//   - R-JOIN-ORDER: where a span is grown by another edit's span (X = append(a, b...))
//     the span being grown is the one stored into (a is the destination's own
//     span), so the lines keep their order; and from the join every path to the
//     merge of the two edit lists drops the joined edit from its list.
func ruleMdiffPairs(c *Ctx) {
	ruleMergedTail(c)
	ruleTrimAmount(c)

	P := c.P
	c.rule("R-COND-MIRROR", 0, "a same-chunk range test on one side is accompanied by the same test on the other side")
	c.rule("R-CONTEXT-CONTIGUOUS", 1, "in findContext the edge taken on unequal lines leaves the loop")
	c.rule("R-JOIN-ORDER", 1, "a span is grown in place by the neighbour's span, in that order, and the joined edit is then dropped from its list")
	side := map[string]string{"LStart": "L", "LEnd": "L", "RStart": "R", "REnd": "R"}
	chunkT := P.Named("mdiff", "Chunk")
	// ---- R-COND-MIRROR
	for _, fn := range P.PkgFuncs("mdiff") {
		type cmpSite struct {
			base, side string
			op         token.Token
			pos        token.Pos
		}
		var sites []cmpSite
		allInstrs(fn, func(in ssa.Instruction) {
			bo, ok := in.(*ssa.BinOp)
			if !ok || (bo.Op != token.EQL && bo.Op != token.NEQ) {
				return
			}
			bx, fx := loadedField(bo.X)
			by, fy := loadedField(bo.Y)
			if fx == nil || fy == nil || sym(bx) != sym(by) || side[fx.Name()] == "" || side[fx.Name()] != side[fy.Name()] || fx.Name() == fy.Name() {
				return
			}
			if chunkT != nil {
				if p, ok := bx.Type().Underlying().(*types.Pointer); !ok || !isNamedOrigin(p.Elem(), chunkT) {
					return
				}
			}
			sites = append(sites, cmpSite{sym(bx), side[fx.Name()], bo.Op, bo.Pos()})
		})
		for i, st := range sites {
			mirrored := false
			for _, o := range sites {
				if o.base == st.base && o.op == st.op && o.side != st.side {
					mirrored = true
				}
			}
			c.sawFn(fnName(fn))
			c.judge(mirrored, "R-COND-MIRROR", fmt.Sprintf("%s:%s-range %s #%d", fnName(fn), st.side, st.op, i+1), st.pos, "the other side's range is tested the same way", fmt.Sprintf("the %s range of the chunk is tested for emptiness (%s) but the other side's range is not tested the same way anywhere in this function: a chunk that is empty on one side only (a pure insertion or deletion) is treated as empty", st.side, st.op))
		}
	}
	// ---- R-CONTEXT-CONTIGUOUS
	if fc := P.Func("mdiff", "Diff", "findContext"); fc != nil {
		n := 0
		for _, f := range buildCallScope(fc).fns {
			f := f
			allInstrs(f, func(in ssa.Instruction) {
				bo, ok := in.(*ssa.BinOp)
				if !ok || (bo.Op != token.EQL && bo.Op != token.NEQ) {
					return
				}
				isElem := func(v ssa.Value) bool {
					ld, ok := v.(*ssa.UnOp)
					if !ok || ld.Op != token.MUL {
						return false
					}
					ia, ok := ld.X.(*ssa.IndexAddr)
					if !ok {
						return false
					}
					_, f2 := loadedField(ia.X)
					return f2 != nil
				}
				if !isElem(bo.X) || !isElem(bo.Y) {
					return
				}
				var iff *ssa.If
				for _, r := range referrersOf(bo) {
					if i2, ok := r.(*ssa.If); ok {
						iff = i2
					}
				}
				if iff == nil {
					return
				}
				// the loop: innermost header dominating the test
				var hdr *ssa.BasicBlock
				for d := bo.Block(); d != nil && hdr == nil; d = d.Idom() {
					for _, p := range d.Preds {
						if d.Dominates(p) {
							hdr = d
						}
					}
				}
				if hdr == nil {
					return
				}
				n++
				c.sawFn(fnName(f))
				mism := iff.Block().Succs[0] // NEQ true edge
				if bo.Op == token.EQL {
					mism = iff.Block().Succs[1]
				}
				// does the mismatch edge come back to the header?
				seen := map[*ssa.BasicBlock]bool{}
				back := false
				var walk func(b *ssa.BasicBlock)
				walk = func(b *ssa.BasicBlock) {
					if seen[b] || back {
						return
					}
					seen[b] = true
					if b == hdr {
						back = true
						return
					}
					if !hdr.Dominates(b) {
						return // left the loop
					}
					for _, s := range b.Succs {
						walk(s)
					}
				}
				walk(mism)
				c.judge(!back, "R-CONTEXT-CONTIGUOUS", fmt.Sprintf("%s:unequal lines end the run #%d", fnName(f), n), bo.Pos(), "the mismatch edge leaves the loop", "when the two lines differ the loop goes on to the next pair instead of stopping: context lines are collected from beyond the first difference, so the chunk's context no longer matches the lines next to it")
			})
		}
	}
	// ---- R-JOIN-ORDER
	if unify := P.Func("mdiff", "", "UnifyChunks"); unify != nil {
		editT := P.Named("slice", "Edit")
		var listF *types.Var
		if chunkT != nil {
			for _, f := range structFields(chunkT) {
				if _, ok := f.Type().Underlying().(*types.Slice); ok {
					listF = f
				}
			}
		}
		isSpan := func(f *types.Var) bool {
			if f == nil || editT == nil {
				return false
			}
			if _, ok := f.Type().Underlying().(*types.Slice); !ok {
				return false
			}
			for _, g := range structFields(editT) {
				if sameField(f, g) {
					return true
				}
			}
			return false
		}
		n := 0
		for _, fn := range buildCallScope(unify).fns {
			fn := fn
			allInstrs(fn, func(in ssa.Instruction) {
				st, ok := in.(*ssa.Store)
				if !ok {
					return
				}
				fa, ok := st.Addr.(*ssa.FieldAddr)
				if !ok {
					return
				}
				_, df := fieldVarOf(fa)
				if !isSpan(df) {
					return
				}
				ap, ok := isBuiltinCall(st.Val, "append")
				if !ok || len(ap.Call.Args) != 2 {
					return
				}
				b0, f0 := loadedField(ap.Call.Args[0])
				b1, f1 := loadedField(ap.Call.Args[1])
				if !isSpan(f0) || !isSpan(f1) {
					return
				}
				n++
				c.sawFn(fnName(fn))
				key := fmt.Sprintf("%s:join #%d", fnName(fn), n)
				var probs []string
				// what is appended is the neighbour's span of the same kind: another edit, the same field
				if sym(b1) == sym(b0) {
					probs = append(probs, "the span is extended by a span of the same edit (its own lines again), not by the neighbouring edit's")
				} else if !sameField(f1, f0) {
					probs = append(probs, "the span is extended by the neighbour's ."+f1.Name()+" span, not its ."+f0.Name()+" span (context lines live in one span only)")
				}
				if !(sameField(f0, df) && (b0 == fa.X || sym(b0) == sym(fa.X))) {
					probs = append(probs, "the span stored into is not the one being extended: the neighbour's lines come first and the lines of this edit after them (context in the wrong order)")
				}
				// the joined edit leaves its list before the lists are merged
				if listF != nil {
					isDrop := func(in2 ssa.Instruction) bool {
						s2, ok := in2.(*ssa.Store)
						if !ok {
							return false
						}
						fa2, ok := s2.Addr.(*ssa.FieldAddr)
						if !ok {
							return false
						}
						if _, f2 := fieldVarOf(fa2); !sameField(f2, listF) {
							return false
						}
						sl, ok := s2.Val.(*ssa.Slice)
						return ok && (sl.Low != nil || sl.High != nil)
					}
					isMerge := func(in2 ssa.Instruction) bool {
						s2, ok := in2.(*ssa.Store)
						if !ok {
							return false
						}
						fa2, ok := s2.Addr.(*ssa.FieldAddr)
						if !ok {
							return false
						}
						if _, f2 := fieldVarOf(fa2); !sameField(f2, listF) {
							return false
						}
						ap2, ok := isBuiltinCall(s2.Val, "append")
						return ok && len(ap2.Call.Args) == 2
					}
					if missing, wit := reachesWithout(P, st, false, isMerge, isDrop); missing {
						probs = append(probs, "the edit whose lines were moved stays in its chunk's list up to the merge ("+wit+"): those context lines appear twice in the merged chunk")
					}
				}
				c.judge(len(probs) == 0, "R-JOIN-ORDER", key, st.Pos(), "own span extended by the neighbour's; the joined edit is dropped before the merge", strings.Join(probs, "; "))
			})
		}
	}
}

// onlyOtherSide: what a half of the context format leaves out — the lines that exist only on the other side.
func onlyOtherSide(missing []string) bool {
	if len(missing) == 0 || len(missing) > 2 {
		return false
	}
	for _, m := range missing {
		if m != "OpCopy" && m != "OpDrop" {
			return false
		}
	}
	return true
}
