package main

// C16 — shell tokenizer: extract the transducer from the source tables and
// compare it with an independent POSIX reference by product construction.

import (
	"fmt"
	"go/ast"
	"go/constant"
	"go/token"
	"go/types"
	"sort"
	"strings"

	"golang.org/x/tools/go/ssa"
)

func init() {
	register(&propDef{ID: "C16", Level: "model_checking", Run: runC16})
}

type fstEntry struct {
	State  int64
	Action int64
	Pos    token.Pos
}

type shellModel struct {
	stateName, className, actionName map[int64]string
	stateVal, classVal, actionVal    map[string]int64
	update                           map[int64]map[int64]fstEntry // state -> class -> entry
	rowLen                           map[int64]int
	classOf                          [256]int64
	initial                          int64
	tablePos                         token.Pos
	pending                          map[int64]bool // EOF verdict: Next returns true
	complete                         map[int64]bool
	// roles, resolved from the lookup in Scanner.Next (not from identifier names)
	tableVar, classVar      string
	classGlobal             *ssa.Global
	stateT, classT, actionT *types.Named
	stF                     *types.Var
	actionOut               map[int64][]string // output symbols per action constant, derived from the interpreter arm
	interpOK                bool               // the interpreter loop, the end-of-input verdict and Complete were all read
}

// shellRoles finds, in Scanner.Next, the lookup  T[s.f][C[b]]  and resolves
// from it: the transition table T, the byte-class table C, the state field f
// and the state/class/action types.
func shellRoles(c *Ctx, m *shellModel) bool {
	nextFn := c.P.Func("shell", "Scanner", "Next")
	if nextFn == nil {
		c.undecided("ANCHOR", "shell.(*Scanner).Next", 0, "not found")
		return false
	}
	found := false
	var scan func(in ssa.Instruction)
	defer func() {}()
	hosts := []*ssa.Function{nextFn}
	allInstrs(nextFn, func(in ssa.Instruction) {
		if call, ok := in.(*ssa.Call); ok {
			if cal := staticCallee(&call.Call); cal != nil && origin(cal).Blocks != nil && len(call.Call.Args) > 0 && call.Call.Args[0] == ssa.Value(nextFn.Params[0]) {
				hosts = append(hosts, origin(cal))
			}
		}
	})
	scan = func(in ssa.Instruction) {
		ld, ok := in.(*ssa.UnOp)
		if !ok || ld.Op != token.MUL || found {
			return
		}
		ia, ok := ld.X.(*ssa.IndexAddr)
		if !ok {
			return
		}
		var ria *ssa.IndexAddr
		switch row := ia.X.(type) {
		case *ssa.UnOp: // table of slices: load of the row
			if row.Op == token.MUL {
				ria, _ = row.X.(*ssa.IndexAddr)
			}
		case *ssa.IndexAddr: // table of arrays
			ria = row
		}
		if ria == nil {
			return
		}
		g, ok := ria.X.(*ssa.Global)
		if !ok {
			return
		}
		_, sf := loadedField(ria.Index)
		if sf == nil {
			return
		}
		cl, ok := ia.Index.(*ssa.UnOp)
		if !ok || cl.Op != token.MUL {
			return
		}
		cia, ok := cl.X.(*ssa.IndexAddr)
		if !ok {
			return
		}
		g2, ok := cia.X.(*ssa.Global)
		if !ok {
			return
		}
		ent, ok := ld.Type().Underlying().(*types.Struct)
		if !ok || ent.NumFields() != 2 {
			return
		}
		st, ok := sf.Type().(*types.Named)
		if !ok {
			return
		}
		ct, ok := cl.Type().(*types.Named)
		if !ok {
			return
		}
		var at *types.Named
		nState := 0
		for i := 0; i < 2; i++ {
			ft, ok := ent.Field(i).Type().(*types.Named)
			if !ok {
				return
			}
			if types.Identical(ft, st) {
				nState++
			} else {
				at = ft
			}
		}
		if nState != 1 || at == nil {
			return
		}
		m.tableVar, m.classVar, m.stF, m.stateT, m.classT, m.actionT = g.Name(), g2.Name(), sf, st, ct, at
		m.classGlobal = g2
		found = true
	}
	for _, h := range hosts {
		allInstrs(h, scan)
	}
	if !found {
		c.undecided("ANCHOR", "shell.(*Scanner).Next:lookup", nextFn.Pos(), "no lookup of the form table[s.state][classTable[byte]] with a {state, action} entry was found")
	}
	return found
}

// extractShellTables reads update and classOf from the typed AST.
func extractShellTables(c *Ctx) *shellModel {
	p := c.P.Pkgs["shell"]
	if p == nil {
		c.undecided("ANCHOR", "package shell", 0, "package not found")
		return nil
	}
	m := &shellModel{update: map[int64]map[int64]fstEntry{}, rowLen: map[int64]int{}, actionOut: map[int64][]string{}}
	if !shellRoles(c, m) {
		return nil
	}
	m.stateName, m.stateVal = constsOfType(p, m.stateT.Obj().Name())
	m.className, m.classVal = constsOfType(p, m.classT.Obj().Name())
	m.actionName, m.actionVal = constsOfType(p, m.actionT.Obj().Name())
	if len(m.stateName) == 0 || len(m.className) == 0 || len(m.actionName) == 0 {
		c.undecided("ANCHOR", "shell.state/class/action constants", 0, "constant families not found")
		return nil
	}
	info := p.TypesInfo
	upd, upos := pkgVarInit(p, m.tableVar)
	cl, ok := upd.(*ast.CompositeLit)
	if !ok {
		c.undecided("R-FST-TOTAL", "shell.update", upos, "update is not a composite literal; table cannot be read")
		return nil
	}
	m.tablePos = upos
	idx, rows, err := litElems(info, cl)
	if err != nil {
		c.undecided("R-FST-TOTAL", "shell.update", upos, err.Error())
		return nil
	}
	for i, row := range rows {
		rcl, ok := row.(*ast.CompositeLit)
		if !ok {
			c.undecided("R-FST-TOTAL", "shell.update", row.Pos(), "row is not a composite literal")
			return nil
		}
		cidx, ents, err := litElems(info, rcl)
		if err != nil {
			c.undecided("R-FST-TOTAL", "shell.update", row.Pos(), err.Error())
			return nil
		}
		st := idx[i]
		m.update[st] = map[int64]fstEntry{}
		maxIdx := -1
		for j, e := range ents {
			ecl, ok := e.(*ast.CompositeLit)
			if !ok {
				c.undecided("R-FST-TOTAL", "shell.update", e.Pos(), "entry is not a composite literal")
				return nil
			}
			ent := fstEntry{Pos: e.Pos(), State: -1, Action: -1}
			for k, fe := range ecl.Elts {
				var val ast.Expr = fe
				which := k
				if kv, ok := fe.(*ast.KeyValueExpr); ok {
					val = kv.Value
					if id, ok := kv.Key.(*ast.Ident); ok {
						if fv, ok := info.Uses[id].(*types.Var); ok {
							if types.Identical(fv.Type(), m.stateT) {
								which = 0
							} else if types.Identical(fv.Type(), m.actionT) {
								which = 1
							}
						}
					}
				} else if tvl, ok := info.Types[ecl]; ok {
					// positional: the k-th field of the entry struct
					if est, ok := tvl.Type.Underlying().(*types.Struct); ok && k < est.NumFields() {
						if types.Identical(est.Field(k).Type(), m.stateT) {
							which = 0
						} else {
							which = 1
						}
					}
				}
				// decide by the constant's type rather than position when possible
				if tv, ok := info.Types[val]; ok {
					if nt, ok := tv.Type.(*types.Named); ok {
						if types.Identical(nt, m.stateT) {
							which = 0
						} else if types.Identical(nt, m.actionT) {
							which = 1
						}
					}
				}
				v, ok := constIntOf(info, val)
				if !ok {
					c.undecided("R-FST-TOTAL", "shell.update", val.Pos(), "non-constant table entry")
					return nil
				}
				if which == 0 {
					ent.State = v
				} else {
					ent.Action = v
				}
			}
			// omitted fields default to zero
			if ent.State < 0 {
				ent.State = 0
			}
			if ent.Action < 0 {
				ent.Action = 0
			}
			m.update[st][cidx[j]] = ent
			if int(cidx[j]) > maxIdx {
				maxIdx = int(cidx[j])
			}
		}
		m.rowLen[st] = maxIdx + 1
	}
	// classOf
	cof, cpos := pkgVarInit(p, m.classVar)
	ccl, ok := cof.(*ast.CompositeLit)
	if !ok {
		// a table filled at initialisation by constant stores (see builtTables): read off those constants
		if m.classGlobal != nil && m.classGlobal.Pkg != nil {
			if tab, ok := builtTables(m.classGlobal.Pkg)[m.classGlobal]; ok {
				for b := 0; b < 256; b++ {
					m.classOf[b] = tab[b]
				}
				return m
			}
		}
		c.undecided("R-CLASSOF", "shell.classOf", cpos, "classOf is not a composite literal")
		return nil
	}
	if tv, ok := info.Types[cof]; ok {
		if at, ok := tv.Type.Underlying().(*types.Array); ok && at.Len() < 256 {
			c.bad("R-CLASSOF", "shell.classOf:covers every byte", cpos, fmt.Sprintf("the class table has %d entries and the interpreter indexes it with the byte it read: any input byte ≥ %d (UTF-8 text, say) panics with an index out of range", at.Len(), at.Len()))
			return nil
		} else if !ok || at.Len() < 256 {
			c.undecided("R-CLASSOF", "shell.classOf", cpos, "classOf is not a [256] array")
			return nil
		}
	}
	bidx, bels, err := litElems(info, ccl)
	if err != nil {
		c.undecided("R-CLASSOF", "shell.classOf", cpos, err.Error())
		return nil
	}
	for i, e := range bels {
		v, ok := constIntOf(info, e)
		if !ok || bidx[i] < 0 || bidx[i] > 255 {
			c.undecided("R-CLASSOF", "shell.classOf", e.Pos(), "non-constant classOf entry")
			return nil
		}
		m.classOf[bidx[i]] = v
	}
	return m
}

// ---- reference transducer (written from POSIX XCU 2.2/2.3, independent of the table)

type refState struct {
	mode int // 0 Unq, 1 UnqEsc, 2 Sq, 3 Dq, 4 DqEsc
	open bool
}

const (
	rcOther = iota
	rcBlank
	rcNewline
	rcBackslash
	rcSingle
	rcDouble
)

var refClassNames = []string{"Other", "Blank", "Newline", "Backslash", "Single", "Double"}

// refStep returns next state and output symbols ("c", "\\", "EMIT").
func refStep(s refState, cl int) (refState, []string) {
	switch s.mode {
	case 0: // unquoted
		switch cl {
		case rcBlank, rcNewline:
			if s.open {
				return refState{0, false}, []string{"EMIT"}
			}
			return s, nil
		case rcBackslash:
			return refState{1, s.open}, nil
		case rcSingle:
			return refState{2, true}, nil
		case rcDouble:
			return refState{3, true}, nil
		default:
			return refState{0, true}, []string{"c"}
		}
	case 1: // after an unquoted backslash
		if cl == rcNewline {
			return refState{0, s.open}, nil // line continuation: removed, does not start a word
		}
		return refState{0, true}, []string{"c"}
	case 2: // single quotes: everything literal
		if cl == rcSingle {
			return refState{0, true}, nil
		}
		return s, []string{"c"}
	case 3: // double quotes
		switch cl {
		case rcDouble:
			return refState{0, true}, nil
		case rcBackslash:
			return refState{4, true}, nil
		}
		return s, []string{"c"}
	case 4: // backslash inside double quotes
		switch cl {
		case rcBackslash, rcDouble:
			return refState{3, true}, []string{"c"}
		case rcNewline:
			return refState{3, true}, nil
		}
		return refState{3, true}, []string{"\\", "c"}
	}
	panic("bad ref state")
}

func refPending(s refState) bool  { return s.open || s.mode != 0 }
func refComplete(s refState) bool { return s.mode == 0 }

func refClassOfByte(b int) int {
	switch b {
	case ' ', '\t':
		return rcBlank
	case '\n':
		return rcNewline
	case '\\':
		return rcBackslash
	case '\'':
		return rcSingle
	case '"':
		return rcDouble
	}
	return rcOther
}

var refClassSample = map[int]string{rcOther: "a", rcBlank: " ", rcNewline: "\\n", rcBackslash: "\\", rcSingle: "'", rcDouble: "\""}

func runC16(c *Ctx) {
	P := c.P
	c.Level = "model_checking"
	c.Explanation = "The tokenizer is a table-driven transducer whose table is data in the source. The table (update), the byte classification (classOf), the initial state, the per-action effects of the interpreter loop in Scanner.Next, the end-of-input verdict and the Complete predicate are extracted from the typed AST / go/ssa form of /repo on every run (nothing is executed). R-FST-TOTAL: the table is total over reachable states. R-FST-INTERP: the interpreter reads one byte per step through ReadByte, indexes update[st][classOf[c]], assigns the entry's state and performs exactly the effect each action name promises. R-FST-EQUIV: the extracted transducer is compared with an independently written POSIX reference transducer by exhaustive product construction: on every reachable (impl state, ref state, class) the output symbols agree, and at every reachable pair the end-of-input verdicts (token pending, complete) agree — this covers every input string. R-CLASSOF: all 256 bytes classify as in the reference. R-READBYTE-ONLY, R-ERR-STICKY, R-REST: chunking independence, permanent stop after end of input, Rest hands back the same buffered reader. (R-RESULT-FRESH) the token slice Scanner.Split returns is allocated by that call and not kept in the pooled scanner. Does NOT decide agreement with a real /bin/sh (nothing is executed); the reference transducer is trusted."
	c.rule("R-FST-TOTAL", 6, "every reachable state has a row of exactly |class| entries whose states/actions are declared constants; stNone is unreachable through the table and only stored together with a non-nil error")
	c.rule("R-FST-INTERP", 6, "Scanner.Next: one ReadByte per step; entry = update[s.st][classOf[c]]; s.st := entry.state; per action constant the promised effect (push: write c; xpush: write '\\\\' then c; emit: return true; drop: nothing); otherwise panic; cur reset on entry")
	c.rule("R-FST-EQUIV", 20, "product of extracted transducer and POSIX reference: equal output symbols on every reachable (pair, class), equal end-of-input verdicts at every reachable pair")
	c.rule("R-CLASSOF", 256, "classOf[b] equals the reference class for all 256 byte values")
	c.rule("R-READBYTE-ONLY", 1, "the scanner's bufio.Reader is only used through ReadByte and Reset, or returned by Rest")
	c.rule("R-ERR-STICKY", 2, "Next returns false first thing when err != nil, and err is assigned from every read")
	c.rule("R-REST", 1, "Rest returns the very reader Next reads from")
	c.rule("R-YIELD", 1, "Scanner.Each stops calling f once it returned false")
	c.rule("R-POOL-RESET", 1, "pooled scanner is Reset before use, Put back on exit, never escapes")
	c.rule("R-RESULT-FRESH", 1, "the slice of tokens Scanner.Split returns is allocated by that call: it is not kept in (or taken from) the scanner, which is pooled and reused")
	if sp := P.Func("shell", "Scanner", "Split"); sp != nil {
		c.sawFn(fnName(sp))
		o := resultOrigin(sp, 0)
		kept := ""
		allInstrs(sp, func(in ssa.Instruction) {
			if st, ok := in.(*ssa.Store); ok {
				if fa, ok := st.Addr.(*ssa.FieldAddr); ok {
					if _, isSlice := st.Val.Type().Underlying().(*types.Slice); isSlice {
						if el, ok := st.Val.Type().Underlying().(*types.Slice).Elem().Underlying().(*types.Basic); ok && el.Kind() == types.String {
							_, f := fieldVarOf(fa)
							kept = "." + f.Name()
						}
					}
				}
			}
		})
		c.judge(o.onlyFresh() && kept == "", "R-RESULT-FRESH", "shell.(*Scanner).Split:tokens", sp.Pos(), "origin Fresh, not stored in the scanner", fmt.Sprintf("the returned token slice is not private to the call (origin %s; kept in the scanner: %q): the pooled scanner's next Split overwrites the tokens an earlier caller still holds", o, kept))
	} else {
		c.undecided("ANCHOR", "shell.(*Scanner).Split", 0, "not found")
	}
	c.rule("R-SPLIT-VIA-SCANNER", 1, "every result of shell.Split is produced by the pooled Scanner (no path bypasses the table)")
	c.assume("bufio.Reader.ReadByte hides read fragmentation (standard library contract)")
	c.assume("the reference transducer (printed in evidence) is the intended POSIX word-splitting semantics for blanks, newlines, backslash, single and double quotes; $ and ` are ordinary bytes here")

	m := extractShellTables(c)
	if m == nil {
		return
	}
	scanner := P.Named("shell", "Scanner")
	nextFn := P.Func("shell", "Scanner", "Next")
	completeFn := P.Func("shell", "Scanner", "Complete")
	restFn := P.Func("shell", "Scanner", "Rest")
	newFn := P.Func("shell", "", "NewScanner")
	resetFn := P.Func("shell", "Scanner", "Reset")
	if scanner == nil || nextFn == nil || completeFn == nil || restFn == nil || newFn == nil || resetFn == nil {
		c.undecided("ANCHOR", "shell.Scanner methods", 0, "anchor not found")
		return
	}
	for _, f := range []*ssa.Function{nextFn, completeFn, restFn, newFn, resetFn} {
		c.sawFn(fnName(f))
	}
	stF := m.stF
	errF := fieldByTypeString(scanner, "error")
	bufF := fieldByTypeString(scanner, "*bufio.Reader")
	curF := fieldByTypeString(scanner, "bytes.Buffer")
	if curF == nil {
		curF = fieldByTypeString(scanner, "[]byte") // the token accumulated in a plain byte slice
	}
	if stF == nil || errF == nil || bufF == nil || curF == nil {
		c.undecided("ANCHOR", "shell.Scanner fields", 0, "expected fields (state, error, *bufio.Reader, bytes.Buffer) not found")
		return
	}

	// ---- initial state: constant stored to st in NewScanner and Reset
	inits := map[int64]bool{}
	nInit := 0
	for _, top := range []*ssa.Function{newFn, resetFn} {
		// the store may sit in a helper (restart(st, err)) that is handed the state as an argument:
		// resolve a parameter at the call sites inside this entry point's call scope
		sc := buildCallScope(top)
		seenTop := false
		for _, fn := range sc.fns {
			allInstrs(fn, func(in ssa.Instruction) {
				s, ok := in.(*ssa.Store)
				if !ok {
					return
				}
				if fa, ok := s.Addr.(*ssa.FieldAddr); ok {
					if _, f := fieldVarOf(fa); sameField(f, stF) {
						vals := []ssa.Value{s.Val}
						if p, isP := s.Val.(*ssa.Parameter); isP && fn != top {
							vals = sc.paramArgs(p)
						}
						for _, v0 := range vals {
							if v, ok := constInt(v0); ok {
								inits[v] = true
								if !seenTop {
									nInit++
									seenTop = true
								}
							} else {
								inits[-1] = true
							}
						}
					}
				}
			})
		}
	}
	if len(inits) != 1 || inits[-1] || nInit < 2 {
		c.undecided("R-FST-TOTAL", "initial-state", newFn.Pos(), fmt.Sprintf("NewScanner and Reset must store one and the same constant state; found %v", inits))
		return
	}
	for v := range inits {
		m.initial = v
	}

	// ---- all stores to st anywhere in package shell
	noneVal, hasNone := m.stateVal["stNone"]
	for _, fn := range P.PkgFuncs("shell") {
		allInstrs(fn, func(in ssa.Instruction) {
			s, ok := in.(*ssa.Store)
			if !ok {
				return
			}
			fa, ok := s.Addr.(*ssa.FieldAddr)
			if !ok {
				return
			}
			if _, f := fieldVarOf(fa); !sameField(f, stF) {
				return
			}
			if origin(fn) == newFn || origin(fn) == resetFn {
				return
			}
			key := fnName(fn) + ":store st"
			if v, ok := constInt(s.Val); ok {
				row := m.update[v]
				if len(row) == len(m.className) {
					c.ok("R-FST-TOTAL", key, in.Pos(), "constant state with a full row")
					return
				}
				// a state without a row (stNone): must be paired in-block with a non-nil error store
				paired := false
				for _, in2 := range in.Block().Instrs {
					if s2, ok := in2.(*ssa.Store); ok {
						if fa2, ok := s2.Addr.(*ssa.FieldAddr); ok {
							if _, f2 := fieldVarOf(fa2); sameField(f2, errF) && !isNilConst(s2.Val) {
								if ld, ok := s2.Val.(*ssa.UnOp); ok {
									if g, ok := ld.X.(*ssa.Global); ok && g.Pkg.Pkg.Path() == "io" && g.Name() == "EOF" {
										paired = true
									}
								}
							}
						}
					}
				}
				c.judge(paired, "R-FST-TOTAL", key, in.Pos(), "row-less state stored together with err = io.EOF, so Next returns before indexing", "row-less state stored without making Next unreachable (index out of range on the next byte)")
				return
			}
			// a helper that is handed the state (and the error) as arguments: judged at each of its call sites
			if p, isP := s.Val.(*ssa.Parameter); isP && origin(fn) != nextFn {
				pi := -1
				for i, q := range fn.Params {
					if q == p {
						pi = i
					}
				}
				// the error stored in the same block, if it is a parameter too
				ei := -1
				for _, in2 := range in.Block().Instrs {
					if s2, ok := in2.(*ssa.Store); ok {
						if fa2, ok := s2.Addr.(*ssa.FieldAddr); ok {
							if _, f2 := fieldVarOf(fa2); sameField(f2, errF) {
								for i, q := range fn.Params {
									if s2.Val == ssa.Value(q) {
										ei = i
									}
								}
							}
						}
					}
				}
				nSites, bad := 0, ""
				for _, g := range P.PkgFuncs("shell") {
					allInstrs(g, func(in3 ssa.Instruction) {
						call, ok := in3.(*ssa.Call)
						if !ok || origin(staticCallee(&call.Call)) != origin(fn) || pi < 0 || pi >= len(call.Call.Args) {
							return
						}
						nSites++
						v, isK := constInt(call.Call.Args[pi])
						if !isK {
							bad = "a non-constant state is passed at " + P.pos(call.Pos())
							return
						}
						if len(m.update[v]) == len(m.className) {
							return
						}
						// row-less state: the error argument must be io.EOF
						eof := false
						if ei >= 0 && ei < len(call.Call.Args) {
							if ld, ok := call.Call.Args[ei].(*ssa.UnOp); ok {
								if gl, ok := ld.X.(*ssa.Global); ok && gl.Pkg.Pkg.Path() == "io" && gl.Name() == "EOF" {
									eof = true
								}
							}
						}
						if !eof {
							bad = "a row-less state is passed without err = io.EOF at " + P.pos(call.Pos())
						}
					})
				}
				if nSites > 0 {
					c.judge(bad == "", "R-FST-TOTAL", key, in.Pos(), fmt.Sprintf("%d call site(s) pass a constant state with a full row, or a row-less state together with io.EOF", nSites), bad+": Next would index a missing row on the next byte")
					return
				}
			}
			// non-constant: must be the entry's state inside Next (checked by R-FST-INTERP)
			isStep := false
			if origin(fn) != nextFn {
				// … or inside the per-byte step method Next delegates to (a method on the same scanner that
				// Next calls and that indexes the transition table)
				allInstrs(nextFn, func(in2 ssa.Instruction) {
					if call, ok := in2.(*ssa.Call); ok && origin(staticCallee(&call.Call)) == origin(fn) && len(call.Call.Args) > 0 && call.Call.Args[0] == ssa.Value(nextFn.Params[0]) {
						allInstrs(origin(fn), func(in3 ssa.Instruction) {
							if ia, ok := in3.(*ssa.IndexAddr); ok {
								if g, ok := ia.X.(*ssa.Global); ok && g.Name() == m.tableVar {
									isStep = true
								}
							}
						})
					}
				})
			}
			if origin(fn) != nextFn && !isStep {
				c.undecided("R-FST-TOTAL", key, in.Pos(), "non-constant state stored outside Next")
			}
		})
	}
	_ = hasNone
	_ = noneVal

	// ---- R-FST-TOTAL: reachable states through the table
	reach := map[int64]bool{m.initial: true}
	work := []int64{m.initial}
	nClass := len(m.className)
	for len(work) > 0 {
		s := work[0]
		work = work[1:]
		row := m.update[s]
		key := "update[" + m.stateName[s] + "]"
		if m.stateName[s] == "" {
			c.bad("R-FST-TOTAL", fmt.Sprintf("update[state %d]", s), m.tablePos, "reachable state is not a declared constant")
			continue
		}
		okRow := len(row) == nClass && m.rowLen[s] == nClass
		var msgs []string
		if !okRow {
			msgs = append(msgs, fmt.Sprintf("row has %d entries (max index %d) for %d classes", len(row), m.rowLen[s]-1, nClass))
		}
		for cl, e := range row {
			if _, ok := m.className[cl]; !ok {
				msgs = append(msgs, fmt.Sprintf("entry for undeclared class %d", cl))
			}
			if _, ok := m.stateName[e.State]; !ok {
				msgs = append(msgs, fmt.Sprintf("entry [%s] names undeclared state %d", m.className[cl], e.State))
			}
			if _, ok := m.actionName[e.Action]; !ok {
				msgs = append(msgs, fmt.Sprintf("entry [%s] names undeclared action %d", m.className[cl], e.Action))
			}
			if !reach[e.State] {
				reach[e.State] = true
				work = append(work, e.State)
			}
		}
		pos := m.tablePos
		for _, e := range row {
			pos = e.Pos
			break
		}
		c.judge(len(msgs) == 0, "R-FST-TOTAL", key, pos, fmt.Sprintf("%d entries, all declared", len(row)), strings.Join(msgs, "; "))
	}

	// ---- R-CLASSOF
	// map implementation classes to reference classes by what the class table does: a class denotes the
	// reference class of the majority of the bytes it is assigned to (names play no role)
	implToRef := map[int64]int{}
	votes := map[int64]map[int]int{}
	for b := 0; b < 256; b++ {
		v := m.classOf[b]
		if votes[v] == nil {
			votes[v] = map[int]int{}
		}
		votes[v][refClassOfByte(b)]++
	}
	for v, vs := range votes {
		best, bestN := -1, 0
		for r := 0; r < 6; r++ {
			if vs[r] > bestN {
				best, bestN = r, vs[r]
			}
		}
		implToRef[v] = best
		if _, declared := m.className[v]; !declared {
			c.bad("R-CLASSOF", fmt.Sprintf("class %d", v), m.tablePos, "the class table assigns bytes to a value that is not a declared class constant")
		}
	}
	covered := map[int]bool{}
	for _, r := range implToRef {
		covered[r] = true
	}
	if len(covered) != 6 {
		var miss []string
		for r := 0; r < 6; r++ {
			if !covered[r] {
				miss = append(miss, refClassNames[r])
			}
		}
		c.bad("R-CLASSOF", "classes", m.tablePos, "no class of the tokenizer stands for the reference class(es) "+strings.Join(miss, ", ")+": those bytes are not distinguished")
	}
	for b := 0; b < 256; b++ {
		want := refClassOfByte(b)
		got, ok := implToRef[m.classOf[b]]
		c.judge(ok && got == want, "R-CLASSOF", fmt.Sprintf("classOf[%d]", b), m.tablePos, "", fmt.Sprintf("byte %q is classified %s, reference says %s", rune(b), m.className[m.classOf[b]], refClassNames[want]))
	}

	// ---- R-FST-INTERP
	interp := checkInterp(c, m, nextFn, stF, errF, bufF, curF)

	// ---- EOF verdict and Complete predicate, as sets of states
	m.pending, m.complete = map[int64]bool{}, map[int64]bool{}
	evalOK := true
	for s := range reach {
		sv := s
		fv := func(f *types.Var) (constant.Value, bool) {
			if sameField(f, stF) {
				return constant.MakeInt64(sv), true
			}
			return nil, false
		}
		e := &evalCtx{fieldVal: fv, env: map[ssa.Value]constant.Value{}, pkgFuncs: P.PkgFuncs("shell")}
		res, err := e.run(completeFn.Blocks[0], nil)
		if err != nil || len(res) != 1 {
			c.undecided("R-FST-INTERP", "shell.(*Scanner).Complete", completeFn.Pos(), fmt.Sprint("cannot read Complete as a set of states: ", err))
			evalOK = false
			break
		}
		m.complete[s] = constant.BoolVal(res[0])
		if interp != nil && interp.eofBlock != nil {
			e2 := &evalCtx{fieldVal: fv, env: map[ssa.Value]constant.Value{}, pkgFuncs: P.PkgFuncs("shell")}
			res, err := e2.run(interp.eofBlock, interp.eofBlock.Preds[0])
			if err != nil || len(res) != 1 {
				c.undecided("R-FST-INTERP", "shell.(*Scanner).Next:eof-verdict", nextFn.Pos(), fmt.Sprint("cannot read the end-of-input verdict: ", err))
				evalOK = false
				break
			}
			m.pending[s] = constant.BoolVal(res[0])
		} else {
			evalOK = false
		}
	}
	if evalOK {
		c.ok("R-FST-INTERP", "shell.(*Scanner).Complete", completeFn.Pos(), "read as set "+stateSet(m, m.complete))
		c.ok("R-FST-INTERP", "shell.(*Scanner).Next:eof-verdict", nextFn.Pos(), "token pending at end of input in states "+stateSet(m, m.pending))
	}

	// ---- R-FST-EQUIV (only meaningful if the interpreter does what names say)
	m.interpOK = evalOK && interp != nil && interp.ok
	if evalOK && interp != nil && interp.ok {
		productCheck(c, m, implToRef)
	} else {
		c.undecided("R-FST-EQUIV", "product", m.tablePos, "interpreter semantics could not be established; product not built")
	}

	// ---- R-READBYTE-ONLY, R-REST
	for _, fn := range P.PkgFuncs("shell") {
		allInstrs(fn, func(in ssa.Instruction) {
			ld, ok := in.(*ssa.UnOp)
			if !ok || ld.Op != token.MUL {
				return
			}
			fa, ok := ld.X.(*ssa.FieldAddr)
			if !ok {
				return
			}
			if _, f := fieldVarOf(fa); !sameField(f, bufF) {
				return
			}
			for _, r := range referrersOf(ld) {
				key := fnName(fn) + ":use of buf"
				switch x := r.(type) {
				case ssa.CallInstruction:
					cal := x.Common().StaticCallee()
					name := ""
					if cal != nil {
						name = cal.Name()
					}
					isRecv := len(x.Common().Args) > 0 && x.Common().Args[0] == ld
					c.judge(isRecv && (name == "ReadByte" || name == "Reset"), "R-READBYTE-ONLY", key, r.Pos(), "method "+name, "the buffered reader is used through "+name+" (only ReadByte/Reset keep tokenization independent of chunking and Rest exact)")
				case *ssa.MakeInterface:
					// returned by Rest
					retOK := origin(fn) == restFn
					for _, r2 := range referrersOf(x) {
						if _, ok := r2.(*ssa.Return); !ok {
							retOK = false
						}
					}
					c.judge(retOK, "R-REST", fnName(fn)+":returns buf", r.Pos(), "Rest returns the reader Next reads from, so buffered bytes are handed back", "buffered reader escapes other than as Rest's result")
				case *ssa.DebugRef:
				default:
					c.undecided("R-READBYTE-ONLY", key, r.Pos(), fmt.Sprintf("unrecognised use %T", r))
				}
			}
		})
	}
	// Rest must return a value derived from s.buf (not, e.g., the underlying reader)
	{
		okRest := false
		allInstrs(restFn, func(in ssa.Instruction) {
			if ret, ok := in.(*ssa.Return); ok && len(ret.Results) == 1 {
				if mi, ok := ret.Results[0].(*ssa.MakeInterface); ok {
					if _, f := loadedField(mi.X); sameField(f, bufF) {
						okRest = true
					}
				}
			}
		})
		if !okRest {
			c.bad("R-REST", "shell.(*Scanner).Rest:result", restFn.Pos(), "Rest does not return the scanner's buffered reader: bytes already buffered would be lost")
		}
	}

	// ---- R-ERR-STICKY
	{
		entry := nextFn.Blocks[0]
		okSticky := false
		if iff, ok := entry.Instrs[len(entry.Instrs)-1].(*ssa.If); ok {
			if bo, ok := iff.Cond.(*ssa.BinOp); ok && bo.Op == token.NEQ && isNilConst(bo.Y) {
				if _, f := loadedField(bo.X); sameField(f, errF) {
					tb := entry.Succs[0]
					if ret, ok := tb.Instrs[len(tb.Instrs)-1].(*ssa.Return); ok && len(ret.Results) == 1 {
						if cst, ok := ret.Results[0].(*ssa.Const); ok && cst.Value != nil && !constant.BoolVal(cst.Value) {
							okSticky = true
						}
					}
					// nothing effectful before the test
					for _, in := range entry.Instrs {
						switch in.(type) {
						case *ssa.Store, ssa.CallInstruction:
							okSticky = false
						}
					}
				}
			}
		}
		c.judge(okSticky, "R-ERR-STICKY", "shell.(*Scanner).Next:entry", nextFn.Pos(), "returns false before doing anything when err != nil", "Next does not begin with `if s.err != nil { return false }`")
		// every ReadByte result's error is stored to err in the same block
		allInstrs(nextFn, func(in ssa.Instruction) {
			call, ok := in.(*ssa.Call)
			if !ok {
				return
			}
			if cal := call.Call.StaticCallee(); cal == nil || cal.Name() != "ReadByte" {
				return
			}
			stored := false
			for _, in2 := range in.Block().Instrs {
				if s, ok := in2.(*ssa.Store); ok {
					if fa, ok := s.Addr.(*ssa.FieldAddr); ok {
						if _, f := fieldVarOf(fa); sameField(f, errF) {
							if ex, ok := s.Val.(*ssa.Extract); ok && ex.Tuple == call && ex.Index == 1 {
								stored = true
							}
						}
					}
				}
			}
			if !stored {
				// … or recorded on the error path only (`if err != nil { s.err = err; … }`): with no error there is
				// nothing to make sticky, and the entry test has already established that err was nil
				allInstrs(nextFn, func(in2 ssa.Instruction) {
					s, ok := in2.(*ssa.Store)
					if !ok {
						return
					}
					fa, ok := s.Addr.(*ssa.FieldAddr)
					if !ok {
						return
					}
					if _, f := fieldVarOf(fa); !sameField(f, errF) {
						return
					}
					ex, ok := s.Val.(*ssa.Extract)
					if !ok || ex.Tuple != ssa.Value(call) || ex.Index != 1 {
						return
					}
					for _, cm := range cmpsAt(s.Block()) {
						if cm.X == ssa.Value(ex) && isNilConst(cm.Y) && cm.Op == token.NEQ {
							// and the no-error edge must not skip a non-nil error: it is the complement of this test
							stored = true
						}
					}
				})
			}
			c.judge(stored, "R-ERR-STICKY", "shell.(*Scanner).Next:err-assign", in.Pos(), "err assigned from the read", "the error of ReadByte is not recorded in err: Next could read past the end again")
		})
	}

	ruleYield(c, []*ssa.Function{P.Func("shell", "Scanner", "Each")})
	rulePoolReset(c, []*ssa.Function{P.Func("shell", "", "Split")})
	ruleSplitViaScanner(c, P.Func("shell", "", "Split"))

	// evidence extras
	tbl := map[string]map[string]string{}
	for s, row := range m.update {
		r := map[string]string{}
		for cl, e := range row {
			r[m.className[cl]] = m.stateName[e.State] + "/" + m.actionName[e.Action]
		}
		tbl[m.stateName[s]] = r
	}
	c.Extra["extracted_table"] = tbl
	c.Extra["initial_state"] = m.stateName[m.initial]
	c.Extra["reference_transducer"] = "states (mode∈{Unq,UnqEsc,Sq,Dq,DqEsc}, open); Unq: blank/newline → EMIT if open; \\ → UnqEsc; ' → Sq(open); \" → Dq(open); other → push. UnqEsc: newline → Unq (removed, open unchanged); else push, Unq(open). Sq: ' → Unq; else push. Dq: \" → Unq; \\ → DqEsc; else push. DqEsc: \\ or \" → push c; newline → removed; else push \\ then c; → Dq. End of input: pending = open or mode≠Unq; complete = mode=Unq."
	c.Extra["traces_validated_against_impl"] = 0
	c.Extra["_model"] = m
}

func stateSet(m *shellModel, set map[int64]bool) string {
	var ns []string
	for s, v := range set {
		if v {
			ns = append(ns, m.stateName[s])
		}
	}
	sort.Strings(ns)
	return "{" + strings.Join(ns, ",") + "}"
}

func fieldByType(n *types.Named, typeName string) *types.Var {
	st := n.Underlying().(*types.Struct)
	for i := 0; i < st.NumFields(); i++ {
		if nt, ok := st.Field(i).Type().(*types.Named); ok && nt.Obj().Name() == typeName {
			return st.Field(i)
		}
	}
	return nil
}

func fieldByTypeString(n *types.Named, ts string) *types.Var {
	st := n.Underlying().(*types.Struct)
	for i := 0; i < st.NumFields(); i++ {
		if st.Field(i).Type().String() == ts {
			return st.Field(i)
		}
	}
	return nil
}

type interpResult struct {
	ok       bool
	eofBlock *ssa.BasicBlock
}

// bufWrites renders the byte sequence a write call appends, symbolically.
// c is the SSA value of the current input byte.
func bufWriteSeq(call *ssa.Call, curF *types.Var, cbyte ssa.Value) ([]string, bool) {
	cal := call.Call.StaticCallee()
	if cal == nil || len(call.Call.Args) < 1 {
		return nil, false
	}
	fa, ok := call.Call.Args[0].(*ssa.FieldAddr)
	if !ok {
		return nil, false
	}
	if _, f := fieldVarOf(fa); !sameField(f, curF) {
		return nil, false
	}
	symb := func(v ssa.Value) string {
		if v == cbyte {
			return "c"
		}
		if i, ok := constInt(v); ok {
			return fmt.Sprintf("%d", i)
		}
		if cv, ok := v.(*ssa.Convert); ok && cv.X == cbyte {
			return "c"
		}
		return "?" + v.Name()
	}
	switch cal.Name() {
	case "WriteByte":
		return []string{symb(call.Call.Args[1])}, true
	case "WriteRune":
		// a rune is written in its UTF-8 encoding: the input byte converted to a rune comes out as two bytes
		// when it is ≥ 0x80, so this is not "the byte c"
		if a := symb(call.Call.Args[1]); a == "c" {
			return []string{"utf8(rune(c))"}, true
		} else if k, ok := constInt(call.Call.Args[1]); ok && k >= 0x80 {
			return []string{fmt.Sprintf("utf8(%d)", k)}, true
		} else {
			return []string{a}, true
		}
	case "Write":
		// slice of a fresh array with element stores
		sl, ok := call.Call.Args[1].(*ssa.Slice)
		if !ok {
			return []string{"?"}, true
		}
		al, ok := sl.X.(*ssa.Alloc)
		if !ok {
			return []string{"?"}, true
		}
		elems := map[int64]string{}
		for _, r := range referrersOf(al) {
			if ia, ok := r.(*ssa.IndexAddr); ok {
				idx, _ := constInt(ia.Index)
				for _, r2 := range referrersOf(ia) {
					if st, ok := r2.(*ssa.Store); ok {
						elems[idx] = symb(st.Val)
					}
				}
			}
		}
		var out []string
		for i := int64(0); i < int64(len(elems)); i++ {
			out = append(out, elems[i])
		}
		return out, true
	case "WriteString":
		if cs, ok := call.Call.Args[1].(*ssa.Const); ok && cs.Value != nil && cs.Value.Kind() == constant.String {
			var out []string
			for _, b := range []byte(constant.StringVal(cs.Value)) {
				out = append(out, fmt.Sprint(b))
			}
			return out, true
		}
		return []string{"?"}, true
	case "Reset", "String", "Len", "Grow", "Bytes":
		return nil, false
	}
	return []string{"?" + cal.Name()}, true
}

func checkInterp(c *Ctx, m *shellModel, nextFn *ssa.Function, stF, errF, bufF, curF *types.Var) *interpResult {
	res := &interpResult{}
	P := c.P
	key := "shell.(*Scanner).Next"
	// the ReadByte call
	var reads []*ssa.Call
	allInstrs(nextFn, func(in ssa.Instruction) {
		if call, ok := in.(*ssa.Call); ok {
			if cal := call.Call.StaticCallee(); cal != nil && cal.Name() == "ReadByte" && cal.Signature.Recv() != nil && cal.Signature.Recv().Type().String() == "*bufio.Reader" {
				reads = append(reads, call)
			}
		}
	})
	if len(reads) != 1 {
		c.undecided("R-FST-INTERP", key+":read", nextFn.Pos(), fmt.Sprintf("%d ReadByte calls (want exactly one per step)", len(reads)))
		return res
	}
	rd := reads[0]
	if _, f := loadedField(rd.Call.Args[0]); !sameField(f, bufF) {
		c.bad("R-FST-INTERP", key+":read", rd.Pos(), "ReadByte is not called on the scanner's buffered reader")
		return res
	}
	var cbyte, cerr ssa.Value
	for _, r := range referrersOf(rd) {
		if ex, ok := r.(*ssa.Extract); ok {
			if ex.Index == 0 {
				cbyte = ex
			} else {
				cerr = ex
			}
		}
	}
	if cbyte == nil || cerr == nil {
		c.undecided("R-FST-INTERP", key+":read", rd.Pos(), "byte/error results of ReadByte not both used")
		return res
	}
	loopHead := rd.Block()
	c.ok("R-FST-INTERP", key+":read", rd.Pos(), "one ReadByte on s.buf per step")

	// EOF branch: if err == io.EOF → block whose return is the verdict
	for _, r := range referrersOf(cerr) {
		if bo, ok := r.(*ssa.BinOp); ok && bo.Op == token.EQL {
			other := bo.Y
			if other == cerr {
				other = bo.X
			}
			if ld, ok := other.(*ssa.UnOp); ok {
				if g, ok := ld.X.(*ssa.Global); ok && g.Name() == "EOF" {
					for _, r2 := range referrersOf(bo) {
						if iff, ok := r2.(*ssa.If); ok {
							res.eofBlock = iff.Block().Succs[0]
						}
					}
				}
			}
		}
	}
	if res.eofBlock == nil {
		c.undecided("R-FST-INTERP", key+":eof", nextFn.Pos(), "no `err == io.EOF` branch found")
		return res
	}

	// cur.Reset before the loop on the non-error path
	resetOK := false
	allInstrs(nextFn, func(in ssa.Instruction) {
		if call, ok := in.(*ssa.Call); ok {
			if cal := call.Call.StaticCallee(); cal != nil && cal.Name() == "Reset" && len(call.Call.Args) == 1 {
				if fa, ok := call.Call.Args[0].(*ssa.FieldAddr); ok {
					if _, f := fieldVarOf(fa); sameField(f, curF) && dominatesInstr(call, rd) && call.Block() != loopHead {
						resetOK = true
					}
				}
			}
		}
	})
	allInstrs(nextFn, func(in ssa.Instruction) {
		// byte-slice form: s.tok = s.tok[:0] (or nil)
		st, ok := in.(*ssa.Store)
		if !ok {
			return
		}
		fa, ok := st.Addr.(*ssa.FieldAddr)
		if !ok {
			return
		}
		if _, f := fieldVarOf(fa); !sameField(f, curF) || !dominatesInstr(st, rd) || st.Block() == loopHead {
			return
		}
		if isNilConst(st.Val) {
			resetOK = true
		}
		if sl, ok := st.Val.(*ssa.Slice); ok && sl.Low == nil && sl.High != nil && isConstInt(sl.High, 0) && isLoadOfField(sl.X, curF) {
			resetOK = true
		}
	})
	c.judge(resetOK, "R-FST-INTERP", key+":cur-reset", nextFn.Pos(), "token buffer reset before the scanning loop", "token buffer is not reset at the start of Next: tokens would run together")

	// the entry load: update[load st][classOf[c]] — in Next itself, or in a per-byte step method of the scanner
	// that Next hands the byte to (s.step(c)); the step's boolean result then stands for "return true" /
	// "continue" as Next uses it
	host := nextFn
	hostByte := cbyte
	retMap := map[bool]string{}
	findEntry := func(fn *ssa.Function) *ssa.UnOp {
		var found *ssa.UnOp
		allInstrs(fn, func(in ssa.Instruction) {
			ld, ok := in.(*ssa.UnOp)
			if !ok || ld.Op != token.MUL {
				return
			}
			ia, ok := ld.X.(*ssa.IndexAddr)
			if !ok {
				return
			}
			row, ok := ia.X.(*ssa.UnOp)
			if !ok || row.Op != token.MUL {
				return
			}
			ria, ok := row.X.(*ssa.IndexAddr)
			if !ok {
				return
			}
			g, ok := ria.X.(*ssa.Global)
			if !ok || g.Name() != m.tableVar {
				return
			}
			found = ld
		})
		return found
	}
	if findEntry(nextFn) == nil {
		allInstrs(nextFn, func(in ssa.Instruction) {
			call, ok := in.(*ssa.Call)
			if !ok || host != nextFn {
				return
			}
			cal := staticCallee(&call.Call)
			if cal == nil || origin(cal).Blocks == nil || len(call.Call.Args) < 2 || call.Call.Args[0] != ssa.Value(nextFn.Params[0]) {
				return
			}
			bi := -1
			for i, a := range call.Call.Args {
				if a == cbyte {
					bi = i
				}
			}
			if bi < 0 || findEntry(origin(cal)) == nil {
				return
			}
			// how Next uses the step's answer
			for _, r := range referrersOf(call) {
				iff, ok := r.(*ssa.If)
				if !ok {
					continue
				}
				for si, sc := range iff.Block().Succs {
					b := sc
					for steps := 0; steps < 4 && b != nil; steps++ {
						if b == loopHead {
							retMap[si == 0] = "continue"
							break
						}
						if ret, ok := b.Instrs[len(b.Instrs)-1].(*ssa.Return); ok && len(b.Instrs) == 1 && len(ret.Results) == 1 {
							if cst, ok := ret.Results[0].(*ssa.Const); ok && cst.Value != nil {
								retMap[si == 0] = "return " + cst.Value.String()
							}
							break
						}
						if len(b.Succs) != 1 || len(b.Instrs) != 1 {
							break
						}
						b = b.Succs[0]
					}
				}
			}
			if len(retMap) == 2 {
				host, hostByte = origin(cal), origin(cal).Params[bi]
			}
		})
	}
	var entryLoad *ssa.UnOp
	allInstrs(host, func(in ssa.Instruction) {
		ld, ok := in.(*ssa.UnOp)
		if !ok || ld.Op != token.MUL {
			return
		}
		ia, ok := ld.X.(*ssa.IndexAddr)
		if !ok {
			return
		}
		row, ok := ia.X.(*ssa.UnOp)
		if !ok || row.Op != token.MUL {
			return
		}
		ria, ok := row.X.(*ssa.IndexAddr)
		if !ok {
			return
		}
		g, ok := ria.X.(*ssa.Global)
		if !ok || g.Name() != m.tableVar {
			return
		}
		entryLoad = ld
	})
	if entryLoad == nil {
		c.undecided("R-FST-INTERP", key+":lookup", nextFn.Pos(), "no load of update[..][..] found")
		return res
	}
	ia := entryLoad.X.(*ssa.IndexAddr)
	ria := ia.X.(*ssa.UnOp).X.(*ssa.IndexAddr)
	lookupOK := true
	var why []string
	if _, f := loadedField(ria.Index); !sameField(f, stF) {
		lookupOK = false
		why = append(why, "row index is not the current state s.st")
	}
	// column index: load classOf[c]
	if cl, ok := ia.Index.(*ssa.UnOp); ok && cl.Op == token.MUL {
		if cia, ok := cl.X.(*ssa.IndexAddr); ok {
			g, ok := cia.X.(*ssa.Global)
			if !ok || g.Name() != m.classVar {
				lookupOK = false
				why = append(why, "column index is not classOf[..]")
			}
			if cia.Index != hostByte {
				lookupOK = false
				why = append(why, "classOf is not indexed by the byte just read")
			}
		} else {
			lookupOK = false
			why = append(why, "column index is not a classOf lookup")
		}
	} else {
		lookupOK = false
		why = append(why, "column index is not a classOf lookup")
	}
	c.judge(lookupOK, "R-FST-INTERP", key+":lookup", entryLoad.Pos(), "entry = update[s.st][classOf[c]]", strings.Join(why, "; "))
	if !lookupOK {
		return res
	}
	// entry may be spilled to a local struct
	fieldOfEntry := func(v ssa.Value) (int, bool) {
		// returns field index if v is a load of a field of the entry
		switch x := v.(type) {
		case *ssa.Field:
			if x.X == entryLoad {
				return x.Field, true
			}
		case *ssa.UnOp:
			if x.Op == token.MUL {
				if fa, ok := x.X.(*ssa.FieldAddr); ok {
					if al, ok := fa.X.(*ssa.Alloc); ok {
						// the alloc must be stored exactly once with entryLoad
						n, good := 0, false
						for _, r := range referrersOf(al) {
							if st, ok := r.(*ssa.Store); ok && st.Addr == al {
								n++
								good = st.Val == entryLoad
							}
						}
						if n == 1 && good {
							return fa.Field, true
						}
					}
					if fa.X == ia {
						return fa.Field, true
					}
				}
			}
		}
		return 0, false
	}
	entT := entryLoad.Type().Underlying().(*types.Struct)
	stateIdx, actionIdx := -1, -1
	for i := 0; i < entT.NumFields(); i++ {
		if nt, ok := entT.Field(i).Type().(*types.Named); ok {
			switch {
			case types.Identical(nt, m.stateT):
				stateIdx = i
			case types.Identical(nt, m.actionT):
				actionIdx = i
			}
		}
	}
	// s.st = entry.state, exactly one non-constant store to st in Next
	nStore, stOK := 0, false
	stHosts := []*ssa.Function{nextFn}
	if host != nextFn {
		stHosts = append(stHosts, host)
	}
	for _, stHost := range stHosts {
	allInstrs(stHost, func(in ssa.Instruction) {
		if s, ok := in.(*ssa.Store); ok {
			if fa, ok := s.Addr.(*ssa.FieldAddr); ok {
				if _, f := fieldVarOf(fa); sameField(f, stF) {
					nStore++
					if idx, ok := fieldOfEntry(s.Val); ok && idx == stateIdx && dominatesInstr(entryLoad, s) {
						stOK = true
					}
				}
			}
		}
	})
	}
	c.judge(nStore == 1 && stOK, "R-FST-INTERP", key+":state-update", entryLoad.Pos(), "s.st = entry.state, the only store to st in Next", fmt.Sprintf("%d stores to st in Next; the entry's state is assigned: %v", nStore, stOK))
	if !(nStore == 1 && stOK) {
		return res
	}
	// action arms
	arms := map[int64]*ssa.BasicBlock{}
	var fallthroughBlk *ssa.BasicBlock
	allInstrs(host, func(in ssa.Instruction) {
		iff, ok := in.(*ssa.If)
		if !ok {
			return
		}
		bo, ok := iff.Cond.(*ssa.BinOp)
		if !ok || (bo.Op != token.EQL && bo.Op != token.NEQ) {
			return
		}
		idx, ok := fieldOfEntry(bo.X)
		if !ok || idx != actionIdx {
			return
		}
		v, ok := constInt(bo.Y)
		if !ok {
			return
		}
		// `act != k` is the same test with its arms the other way round (the last link of an if/else chain:
		// else if act != drop { panic })
		eq, ne := 0, 1
		if bo.Op == token.NEQ {
			eq, ne = 1, 0
		}
		arms[v] = iff.Block().Succs[eq]
		fallthroughBlk = iff.Block().Succs[ne]
	})
	allOK := true
	for v, name := range m.actionName {
		armKey := key + ":action " + name
		blk, ok := arms[v]
		if !ok {
			c.bad("R-FST-INTERP", armKey, nextFn.Pos(), "no arm handles this action constant")
			allOK = false
			continue
		}
		// walk from blk until loop head / return / panic, collecting writes; arms must be straight-line
		var writes []string
		end := ""
		b := blk
		steps := 0
		for end == "" {
			steps++
			if host == nextFn && b == loopHead {
				end = "continue"
				break
			}
			if steps > 10 {
				end = "?"
				break
			}
			for _, in := range b.Instrs {
				switch x := in.(type) {
				case *ssa.Call:
					if seq, ok := bufWriteSeq(x, curF, hostByte); ok {
						writes = append(writes, seq...)
					} else if _, isB := x.Call.Value.(*ssa.Builtin); !isB {
						writes = append(writes, "?call "+x.String())
					}
				case *ssa.Store:
					if _, ok := x.Addr.(*ssa.IndexAddr); !ok {
						if _, ok := x.Addr.(*ssa.Alloc); !ok {
							if seq, ok := sliceAppendSeq(x, curF, hostByte); ok {
								writes = append(writes, seq...)
							} else {
								writes = append(writes, "?store")
							}
						}
					}
				case *ssa.Return:
					if len(x.Results) == 1 {
						if cst, ok := x.Results[0].(*ssa.Const); ok && cst.Value != nil {
							end = "return " + cst.Value.String()
							if host != nextFn {
								// the step's answer, as Next uses it
								end = retMap[cst.Value.String() == "true"]
							}
						} else {
							end = "return ?"
						}
					}
				case *ssa.Panic:
					end = "panic"
				case *ssa.If:
					end = "?branch"
				}
			}
			if end == "" {
				if len(b.Succs) != 1 {
					end = "?"
					break
				}
				b = b.Succs[0]
			}
		}
		got := strings.Join(writes, ",") + " → " + end
		// the meaning of the action constant is what its arm does; it must be one of the four effects of a
		// word-splitting transducer.  Where the constant carries one of the conventional names, the name is
		// additionally held to its promise.
		var out []string
		recognised := true
		switch got {
		case "c → continue":
			out = []string{"c"}
		case "92,c → continue":
			out = []string{"\\", "c"}
		case " → return true":
			out = []string{"EMIT"}
		case " → continue":
			out = nil
		default:
			recognised = false
		}
		want, named := map[string]string{"push": "c → continue", "xpush": "92,c → continue", "emit": " → return true", "drop": " → continue"}[name]
		switch {
		case !recognised:
			c.bad("R-FST-INTERP", armKey, instrPos(blk.Instrs[0]), fmt.Sprintf("arm does %q, which is none of the four effects of a word-splitting step (append c / append \\ c / end the token / nothing)", got))
			allOK = false
		case named && got != want:
			c.bad("R-FST-INTERP", armKey, instrPos(blk.Instrs[0]), fmt.Sprintf("arm does %q, the action name promises %q", got, want))
			allOK = false
		default:
			m.actionOut[v] = out
			c.ok("R-FST-INTERP", armKey, instrPos(blk.Instrs[0]), "effect: "+got)
		}
	}
	// default arm panics
	if fallthroughBlk != nil {
		c.judge(endsInPanic(fallthroughBlk), "R-FST-INTERP", key+":action default", instrPos(fallthroughBlk.Instrs[0]), "unknown action panics", "an unknown action value is silently accepted")
	}
	_ = P
	res.ok = allOK
	return res
}

// productCheck: BFS over pairs (impl state, ref state).
func productCheck(c *Ctx, m *shellModel, implToRef map[int64]int) {
	type pair struct {
		s int64
		r refState
	}
	start := pair{m.initial, refState{0, false}}
	seen := map[pair]string{start: ""}
	queue := []pair{start}
	transitions := 0
	var samples []string
	for len(queue) > 0 {
		p := queue[0]
		queue = queue[1:]
		path := seen[p]
		// end-of-input verdicts
		vk := fmt.Sprintf("eof@(%s,%s)", m.stateName[p.s], refName(p.r))
		ip, ic := m.pending[p.s], m.complete[p.s]
		rp, rc := refPending(p.r), refComplete(p.r)
		// Split reports Complete() after the last Next; compare both verdicts
		if ip == rp && ic == rc {
			c.ok("R-FST-EQUIV", vk, m.tablePos, fmt.Sprintf("input %q: pending=%v complete=%v", path, ip, ic))
		} else {
			c.bad("R-FST-EQUIV", vk, m.tablePos, fmt.Sprintf("at end of input %q the implementation says pending=%v complete=%v, POSIX reference says pending=%v complete=%v (state %s)", path, ip, ic, rp, rc, m.stateName[p.s]))
		}
		var icls []int64
		for icl := range implToRef {
			icls = append(icls, icl)
		}
		sort.Slice(icls, func(i, j int) bool { return icls[i] < icls[j] })
		for _, icl := range icls {
			rcl := implToRef[icl]
			e, ok := m.update[p.s][icl]
			if !ok {
				continue // reported by R-FST-TOTAL
			}
			transitions++
			out := m.actionOut[e.Action]
			nr, rout := refStep(p.r, rcl)
			in := path + refClassSample[rcl]
			k := fmt.Sprintf("update[%s][%s]@%s", m.stateName[p.s], m.className[icl], refName(p.r))
			if strings.Join(out, "") == strings.Join(rout, "") {
				c.ok("R-FST-EQUIV", k, e.Pos, "")
				if len(samples) < 8 {
					samples = append(samples, fmt.Sprintf("%s on input %q: output %v → %s", k, in, out, m.stateName[e.State]))
				}
			} else {
				c.bad("R-FST-EQUIV", k, e.Pos, fmt.Sprintf("on input %q the table entry {%s,%s} outputs %v, the POSIX reference outputs %v", in, m.stateName[e.State], m.actionName[e.Action], out, rout))
				continue // do not explore past a divergence
			}
			np := pair{e.State, nr}
			if _, ok := seen[np]; !ok {
				seen[np] = in
				queue = append(queue, np)
			}
		}
	}
	c.Extra["states"] = len(seen)
	c.Extra["transitions"] = transitions
	c.Extra["exhaustive"] = true
	c.Extra["product_samples"] = samples
}

func refName(r refState) string {
	n := []string{"Unq", "UnqEsc", "Sq", "Dq", "DqEsc"}[r.mode]
	if r.open {
		return n + "+open"
	}
	return n
}

// sliceAppendSeq: st is  s.tok = append(s.tok, e1, e2, …)  on the token field kept as a byte slice; returns the
// appended bytes symbolically (as bufWriteSeq does for a bytes.Buffer).
func sliceAppendSeq(st *ssa.Store, curF *types.Var, cbyte ssa.Value) ([]string, bool) {
	fa, ok := st.Addr.(*ssa.FieldAddr)
	if !ok {
		return nil, false
	}
	if _, f := fieldVarOf(fa); !sameField(f, curF) {
		return nil, false
	}
	ap, ok := isBuiltinCall(st.Val, "append")
	if !ok || len(ap.Call.Args) != 2 || !isLoadOfField(ap.Call.Args[0], curF) {
		return nil, false
	}
	symb := func(v ssa.Value) string {
		if v == cbyte {
			return "c"
		}
		if i, ok := constInt(v); ok {
			return fmt.Sprintf("%d", i)
		}
		if cv, ok := v.(*ssa.Convert); ok && cv.X == cbyte {
			return "c"
		}
		return "?" + v.Name()
	}
	sl, ok := ap.Call.Args[1].(*ssa.Slice)
	if !ok {
		return []string{"?"}, true
	}
	al, ok := sl.X.(*ssa.Alloc)
	if !ok {
		return []string{"?"}, true
	}
	elems := map[int64]string{}
	for _, r := range referrersOf(al) {
		if ia, ok := r.(*ssa.IndexAddr); ok {
			idx, _ := constInt(ia.Index)
			for _, r2 := range referrersOf(ia) {
				if s2, ok := r2.(*ssa.Store); ok {
					elems[idx] = symb(s2.Val)
				}
			}
		}
	}
	var out []string
	for i := int64(0); i < int64(len(elems)); i++ {
		out = append(out, elems[i])
	}
	return out, true
}
