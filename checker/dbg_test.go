package main
import ("testing";"os";"golang.org/x/tools/go/ssa")
func TestDbg(t *testing.T){
 P,err:=loadRepo("/repo","",nil); if err!=nil{t.Fatal(err)}
 fn:=P.Func("queue","Queue","Each")
 fn.WriteTo(os.Stdout)
 _ = ssa.Value(nil)
}
