#!/usr/bin/env python3
"""Run every claimed check against a behaviour-preserving refactoring delivered by a sub-agent.

usage: try_refactor.py <src_dir> <name>

Applies <src_dir>/patch.diff to a scratch copy of /repo (removed afterwards),
re-confirms that the library builds and the whole suite passes, runs all quick
checks against the copy in parallel, and files the refactoring under
/verif/refactors/<name>/ with the verdict per property.  Any report is either a
false alarm of the check or a behaviour change hidden in the refactoring: triage
by hand.
"""
import json, os, shutil, subprocess, sys, tempfile
from concurrent.futures import ThreadPoolExecutor

ENV = dict(os.environ, GOFLAGS="-mod=mod", GOPROXY="off", GOSUMDB="off", GOTOOLCHAIN="local")
ENV.pop("GOWORK", None)

def run(cmd, cwd, timeout=900):
    p = subprocess.run(cmd, cwd=cwd, env=ENV, shell=True, capture_output=True, text=True, timeout=timeout)
    return p.returncode, p.stdout + p.stderr

def main():
    src, name = sys.argv[1], sys.argv[2]
    patch = os.path.join(src, "patch.diff")
    props = [c["property_id"] for c in json.load(open("/verif/MANIFEST.json"))["checks"]]
    tmp = tempfile.mkdtemp(prefix="refac-")
    try:
        run(f"cp -r /repo/. {tmp}/ && rm -rf {tmp}/.git", "/")
        rc, out = run(f"patch -p1 -s -f -i {patch}", tmp)
        if rc != 0:
            print(name, "PATCH DOES NOT APPLY", out[-300:]); sys.exit(1)
        # FAST=1: the suite was confirmed for this patch at this HEAD before; only build
        rc, out = run("go build ./..." if os.environ.get("FAST") else "go build ./... && go test -vet=off -count=1 ./...", tmp)
        if rc != 0:
            print(name, "SUITE FAILS WITH THE REFACTORING", out[-500:]); sys.exit(1)
        def check(p):
            rc, out = run(f"/verif/bin/mdscheck -prop {p} -tier quick -repo {tmp} -evidence none", "/verif", 300)
            lines = [l for l in out.splitlines() if not l.startswith("KNOWN-FINDING") and not l.startswith("OK ")]
            return p, rc, lines
        with ThreadPoolExecutor(8) as ex:
            res = list(ex.map(check, props))
    finally:
        shutil.rmtree(tmp, ignore_errors=True)
    alarms = {p: lines[:8] for p, rc, lines in res if rc != 0}
    dst = os.path.join("/verif/refactors", name)
    os.makedirs(dst, exist_ok=True)
    if os.path.abspath(src) != os.path.abspath(dst):
        shutil.copy(patch, os.path.join(dst, "patch.diff"))
    if os.path.abspath(src) != os.path.abspath(dst) and os.path.exists(os.path.join(src, "notes.md")):
        shutil.copy(os.path.join(src, "notes.md"), os.path.join(dst, "notes.md"))
    head = subprocess.check_output("git -C /repo rev-parse --short HEAD", shell=True, text=True).strip()
    meta_p = os.path.join(dst, "meta.json")
    meta = json.load(open(meta_p)) if os.path.exists(meta_p) else {}
    meta.update({"kind": "behaviour-preserving refactoring (sub-agent)", "repo_head": head,
                 "suite_with_refactoring": "pass", "properties_checked": props,
                 "alarms_now": alarms})
    meta.setdefault("alarms_at_first_run", alarms)
    if "residual_alarms" in meta:
        meta["residual_alarms"] = {p: w for p, w in meta["residual_alarms"].items() if p in alarms}
    json.dump(meta, open(meta_p, "w"), indent=1, ensure_ascii=False)
    print(name, "SILENT" if not alarms else "ALARMS: " + ", ".join(sorted(alarms)))
    for p, lines in alarms.items():
        for l in lines[:4]:
            print("    ", p, l[:230])

main()
