#!/usr/bin/env python3
"""Confirm a seeded change delivered by a sub-agent and file it under /verif/seeded/<name>/.

usage: ingest_seed.py <prop> <src_dir> <name> <pkgdir-of-demo>

Confirms, in a scratch worktree of /repo (removed afterwards):
  (a) patch applies, library builds, full suite passes with the change;
  (b) demonstration fails with the change;
  (c) demonstration passes without it.
Then runs the property's check against a scratch copy with the change applied
and records whether it is caught.  Never touches /repo's working tree.
"""
import json, os, shutil, subprocess, sys, tempfile, glob

ENV = dict(os.environ, GOFLAGS="-mod=mod", GOPROXY="off", GOSUMDB="off", GOTOOLCHAIN="local")
ENV.pop("GOWORK", None)

def run(cmd, cwd, timeout=600):
    try:
        p = subprocess.run(cmd, cwd=cwd, env=ENV, shell=True, capture_output=True, text=True, timeout=timeout)
        return p.returncode, (p.stdout + p.stderr)
    except subprocess.TimeoutExpired as e:
        return 124, "TIMEOUT " + str(e)

def main():
    prop, src, name, pkgdir = sys.argv[1:5]
    patch = os.path.join(src, "patch.diff")
    demos = glob.glob(os.path.join(src, "*_test.go"))
    assert os.path.exists(patch), "no patch.diff"
    assert demos, "no demonstration test file"
    demo = demos[0]
    wt = tempfile.mkdtemp(prefix="seedwt-")
    os.rmdir(wt)
    rc, out = run(f"git -C /repo worktree add --detach {wt} HEAD", "/")
    assert rc == 0, out
    result = {}
    try:
        demo_dst = os.path.join(wt, pkgdir, "zz_seed_test.go")
        # (c) demo passes on clean tree
        shutil.copy(demo, demo_dst)
        rc, out = run(f"go test -vet=off -count=1 -run 'TestSeeded' ./{pkgdir}/", wt, 300)
        result["c_demo_clean"] = {"rc": rc, "tail": out[-600:]}
        os.remove(demo_dst)
        # apply
        rc, out = run(f"git apply {patch}", wt)
        result["apply"] = {"rc": rc, "tail": out[-400:]}
        if rc == 0:
            rc, out = run("go build ./... && go test -vet=off -count=1 ./...", wt, 900)
            result["a_suite_with_change"] = {"rc": rc, "tail": out[-800:]}
            shutil.copy(demo, demo_dst)
            rc, out = run(f"go test -vet=off -count=1 -run 'TestSeeded' ./{pkgdir}/", wt, 300)
            result["b_demo_with_change"] = {"rc": rc, "tail": out[-800:]}
    finally:
        run(f"git -C /repo worktree remove --force {wt}", "/")
        shutil.rmtree(wt, ignore_errors=True)
    ok = (result.get("c_demo_clean", {}).get("rc") == 0 and result.get("apply", {}).get("rc") == 0
          and result.get("a_suite_with_change", {}).get("rc") == 0 and result.get("b_demo_with_change", {}).get("rc") not in (0, None))
    print(json.dumps({k: v["rc"] for k, v in result.items()}), "CONFIRMED" if ok else "NOT CONFIRMED")
    if not ok:
        print(json.dumps(result, indent=1))
        sys.exit(1)
    dst = os.path.join("/verif/seeded", name)
    os.makedirs(dst, exist_ok=True)
    shutil.copy(patch, os.path.join(dst, "patch.diff"))
    shutil.copy(demo, os.path.join(dst, "zz_seed_test.go"))
    notes = os.path.join(src, "notes.md")
    if os.path.exists(notes):
        shutil.copy(notes, os.path.join(dst, "notes.md"))
    # run the check against a scratch copy
    tmp = tempfile.mkdtemp(prefix="seedchk-")
    try:
        run(f"cp -r /repo/. {tmp}/ && rm -rf {tmp}/.git", "/")
        rc, out = run(f"patch -p1 -s -f -i {patch}", tmp)
        assert rc == 0, out
        rc, out = run(f"/verif/bin/mdscheck -prop {prop} -tier quick -repo {tmp} -evidence {tmp}/.ev.json", "/verif", 300)
        caught = rc == 1 and "ERROR property=" not in out
        lines = [l for l in out.splitlines() if "[" in l and "]" in l and "KNOWN-FINDING" not in l][:6]
    finally:
        shutil.rmtree(tmp, ignore_errors=True)
    head = subprocess.check_output("git -C /repo rev-parse --short HEAD", shell=True, text=True).strip()
    meta_path = os.path.join(dst, "meta.json")
    meta = {}
    if os.path.exists(meta_path):
        meta = json.load(open(meta_path))
    meta.update({
        "property": prop,
        "demo_package_dir": pkgdir,
        "expect_caught": caught,
        "expect": "",
        "repo_head_when_confirmed": head,
        "what_i_ran": [
            f"git worktree add (scratch) at {head}; go test -run TestSeeded ./{pkgdir}/ on the clean tree: pass",
            "git apply patch.diff; go build ./... && go test -vet=off -count=1 ./...: pass",
            f"go test -run TestSeeded ./{pkgdir}/ with the change: FAIL",
            f"bin/mdscheck -prop {prop} -tier quick -repo <scratch copy with patch>: " + ("VIOLATION reported" if caught else "no violation (missed)"),
        ],
        "check_report": lines,
    })
    meta.setdefault("needs", "")
    json.dump(meta, open(meta_path, "w"), indent=1, ensure_ascii=False)
    print("filed", dst, "caught" if caught else "MISSED")
    for l in lines:
        print("   ", l[:220])

main()
