#!/usr/bin/env python3
"""usage: remark.py <round-label> <seed-name>...  — re-runs the quick check for each seed on a scratch copy of /repo with
the patch applied and records in meta.json what reports it now: expect = "rule/construct" of the violated obligation
nearest to the patched line; seeds that were missed when ingested (expect_caught false) get a 'strengthened' note that
quotes the rule's statement from the evidence file.  Seeds still silent are listed and left alone."""
import json, os, re, subprocess, sys, tempfile, shutil
label = sys.argv[1]
for n in sys.argv[2:]:
    d = f'/verif/seeded/{n}'
    m = json.load(open(d + '/meta.json'))
    prop = m['property']
    t = tempfile.mkdtemp(prefix='remark.', dir='/tmp')
    subprocess.run(['rsync', '-a', '--exclude', '.git', '/repo/', t + '/'], check=True)
    r = subprocess.run(['patch', '-p1', '-s', '-d', t, '-i', d + '/patch.diff'])
    if r.returncode != 0:
        print(n, 'PATCH DOES NOT APPLY'); shutil.rmtree(t); continue
    vf = f'/tmp/{prop}.violations.json'
    if os.path.exists(vf): os.remove(vf)
    subprocess.run(['/verif/bin/mdscheck', '-prop', prop, '-tier', 'quick', '-repo', t, '-evidence', 'none'], capture_output=True, text=True)
    shutil.rmtree(t)
    vs = []
    if os.path.exists(vf):
        allv = [v for v in json.load(open(vf)) if 'Canary' not in v.get('construct', '') and v.get('rule') not in ('FLOOR', 'MUTANT')]
        vs = [v for v in allv if v.get('verdict') == 'violated']
        weak = False
        if not vs:
            # only lost anchors / undecided sites: the check fails, but not at the construct of the fault
            vs = [v for v in allv if v.get('verdict') == 'undecided']
            weak = bool(vs)
        os.remove(vf)
    if not vs:
        print(n, 'STILL SILENT'); continue
    patch = open(d + '/patch.diff').read()
    pf = re.search(r'^\+\+\+ b/(\S+)', patch, re.M).group(1)
    pl = int(re.search(r'^@@ -(\d+)', patch, re.M).group(1)) + 3
    def dist(v):
        f, _, l = v['pos'].rpartition(':')
        return (0 if f == pf else 1, abs(int(l) - pl) if l.isdigit() else 10**6)
    v = min(vs, key=dist)
    was_missed = not m.get('expect_caught') and not m.get('strengthened')
    m['expect_caught'] = True
    m['expect'] = v['rule'] + '/' + v['construct']
    m['check_report'] = [f"{x['pos']}: [{x['rule']}] {x['construct']}: {x['msg']}"[:400] for x in vs[:3]]
    if weak:
        m['weak'] = "reported only through an undecided obligation (a construct the rule no longer recognises), not at the fault itself"
    else:
        m.pop('weak', None)
    if was_missed:
        doc = ''
        try:
            ev = json.load(open(f'/verif/evidence/{prop}.json'))
            doc = ev['coverage']['per_rule'].get(v['rule'], {}).get('doc', '')
        except Exception:
            pass
        m['strengthened'] = f"missed when first run ({label}); now reported by {v['rule']}" + (f": {doc}" if doc else '')
        m.pop('why_missed', None)
    json.dump(m, open(d + '/meta.json', 'w'), indent=1, ensure_ascii=False)
    print(n, '->', m['expect'], '(strengthened)' if was_missed else '')
