#!/usr/bin/env python3
"""File a seeded change that a sub-agent made ON TOP OF a behaviour-preserving refactoring (a silent twin).

usage: ingest_on_twin.py <prop> <twin> <change_dir> <name>

<change_dir>/patch.diff is a diff against the refactored tree (the twin applied to /repo's HEAD); the demonstration
is an external test using only the exported API.  The change is filed as the COMBINED diff (refactoring + slip)
against /repo's HEAD, so that the battery replays it like any other seeded change; meta.json records the twin.
Confirmation (suite passes, demonstration fails with the change and passes without) is ingest_seed.py's.
"""
import json, os, re, shutil, subprocess, sys, tempfile, glob

def sh(cmd, cwd="/"):
    return subprocess.run(cmd, cwd=cwd, shell=True, capture_output=True, text=True)

def main():
    prop, twin, src, name = sys.argv[1:5]
    demos = glob.glob(os.path.join(src, "*_test.go"))
    if not demos or not os.path.exists(os.path.join(src, "patch.diff")):
        print(name, "INCOMPLETE DELIVERY"); sys.exit(1)
    demo = demos[0]
    m = re.search(r"^package\s+(\w+)", open(demo).read(), re.M)
    pkg = m.group(1)
    if pkg.endswith("_test"):
        pkg = pkg[:-5]
    pkgdir = pkg
    if not os.path.isdir(os.path.join("/repo", pkgdir)):
        print(name, "cannot place demonstration: package", pkg); sys.exit(1)
    t = tempfile.mkdtemp(prefix="ontwin-")
    try:
        sh(f"mkdir a b && rsync -a --exclude .git /repo/ a/ && rsync -a --exclude .git /repo/ b/", t)
        r = sh(f"patch -p1 -s -f -i /verif/refactors/{twin}/patch.diff", t + "/b")
        if r.returncode != 0:
            print(name, "TWIN DOES NOT APPLY", r.stdout[-300:]); sys.exit(1)
        r = sh(f"patch -p1 -s -f -i {src}/patch.diff", t + "/b")
        if r.returncode != 0:
            print(name, "CHANGE DOES NOT APPLY ON THE TWIN", r.stdout[-300:]); sys.exit(1)
        r = sh("diff -ruN a b", t)
        d = os.path.join(t, "deliver")
        os.makedirs(d)
        open(os.path.join(d, "patch.diff"), "w").write(r.stdout)
        shutil.copy(demo, os.path.join(d, "zz_seed_test.go"))
        if os.path.exists(os.path.join(src, "notes.md")):
            shutil.copy(os.path.join(src, "notes.md"), os.path.join(d, "notes.md"))
        shutil.copy(os.path.join(src, "patch.diff"), os.path.join(d, "slip_on_twin.diff"))
        r = subprocess.run(["python3", "/verif/tools/ingest_seed.py", prop, d, name, pkgdir], capture_output=True, text=True)
        print(r.stdout[-1500:], r.stderr[-500:])
        dst = f"/verif/seeded/{name}"
        if r.returncode == 0 and os.path.isdir(dst):
            shutil.copy(os.path.join(d, "slip_on_twin.diff"), os.path.join(dst, "slip_on_twin.diff"))
            mp = os.path.join(dst, "meta.json")
            meta = json.load(open(mp))
            meta["on_twin"] = twin
            meta["round"] = os.environ.get("ROUND", "8") + " (slips in refactored code)"
            json.dump(meta, open(mp, "w"), indent=1, ensure_ascii=False)
    finally:
        shutil.rmtree(t, ignore_errors=True)

main()
