#!/usr/bin/env python3
"""Generate /verif/MANIFEST.json from the table below (kept here so the
manifest stays schema-valid while properties are added one by one)."""
import json, os, sys

HERE = os.path.dirname(os.path.dirname(os.path.abspath(__file__)))

# id -> (category, technique, text, note, design_ref)
CLAIMED = {}

def claim(pid, cat, tech, text, note, ref):
    CLAIMED[pid] = dict(cat=cat, tech=tech, text=text, note=note, ref=ref)

BASE_NOTE = ("Trusted base: go/packages+go/types+go/ssa from golang.org/x/tools v0.29.0 (vendored), the rule "
             "implementations under /verif/checker, and the per-rule assumptions printed in the evidence file. "
             "Nothing of creachadair/mds is executed.")

exec(open(os.path.join(HERE, "tools", "claims.py")).read())

NOT_APPLICABLE = {
    "C02": "static analysis: the bound compares a run-time depth with a floating-point logarithm of a historical maximum size; "
           "no clause of it is visible in the shape of the code, and the only structural candidate (extract's midpoint split) is a "
           "sufficient, not necessary, condition - a rule on it would fire on behaviour-preserving edits (DESIGN.md section 3, C02).",
}

ALL = ["C%02d" % i for i in range(1, 21)]
checks = []
na = []
for pid in ALL:
    if pid in CLAIMED:
        c = CLAIMED[pid]
        checks.append({
            "property_id": pid,
            "quick_cmd": f"bin/mdscheck -prop {pid} -tier quick",
            "thorough_cmd": f"bin/mdscheck -prop {pid} -tier thorough",
            "evidence_file": f"/verif/evidence/{pid}.json",
            "replay_cmd_template": f"bin/mdscheck -prop {pid} -explain {{path}}",
            "engine": "mdscheck",
            "level_claimed": {"category": c["cat"], "text": c["text"], "design_ref": c["ref"]},
            "level_note": c["note"],
            "technique": c["tech"],
        })
    else:
        na.append({"property_id": pid, "reason": NOT_APPLICABLE.get(pid, "static analysis: check not built yet in this round; not claimed until it is (see DESIGN.md section 3 for the planned rules)")})

manifest = {
    "version": 1,
    "setup_cmd": "cd /verif/checker && env -u GOWORK GOFLAGS=-mod=vendor GOPROXY=off GOSUMDB=off GOTOOLCHAIN=local go build -o /verif/bin/mdscheck . ",
    "hooks": {
        "guard": "verif",
        "enable": "none needed: static analysis reads /repo's source as it is; no instrumentation is compiled in",
        "baseline_off_cmd": "cd /repo && env -u GOWORK GOFLAGS=-mod=mod GOPROXY=off GOSUMDB=off go test -vet=off -count=1 ./...",
        "source_commits": [],
        "add_only": True,
    },
    "engines": [{
        "name": "mdscheck",
        "path": "/verif/checker",
        "serves_properties": sorted(CLAIMED),
        "kind_free_text": "purpose-built static analyser over go/packages + go/ssa (x/tools v0.29.0): per-property structural rules "
                          "(lockset, typestate, dominance guards, must-pass-through, pairing, provenance, table extraction + automata product, "
                          "tiny abstract interpreters); loads /repo's current working tree on every run; canary functions injected through a "
                          "go/packages overlay (never written to /repo) keep zero-count rules honest; thorough tier re-runs on GOARCH=386/arm64 "
                          "and runs a mutant battery on scratch copies under mktemp -d.",
    }],
    "checks": checks,
    "not_applicable": na,
    "notes": "Technique family: static analysis. Every check decides structural necessary conditions of its property (stated per check in "
             "level_claimed.text, with what it does NOT decide) from the source, without running creachadair/mds. Known findings: "
             "/verif/known_findings.json. Seeded changes from independent sub-agents: /verif/seeded/. See DESIGN.md.",
}
out = os.path.join(HERE, "MANIFEST.json")
json.dump(manifest, open(out, "w"), indent=1, ensure_ascii=False)
open(out, "a").write("\n")
try:
    import jsonschema
    jsonschema.validate(manifest, json.load(open("/root/.vp/MANIFEST.schema.json")))
    print("MANIFEST.json valid;", len(checks), "claimed,", len(na), "not applicable")
except ImportError:
    print("written (jsonschema not available to validate)")
