#!/usr/bin/env python3
"""Print the markdown table of seeded changes (from /verif/seeded/*/meta.json) for DESIGN.md."""
import json, glob, os
rows=[]
for m in sorted(glob.glob('/verif/seeded/*/meta.json')):
    d=json.load(open(m)); n=os.path.basename(os.path.dirname(m))
    caught=d.get('expect_caught')
    how=d.get('expect','') if caught else ''
    note=d.get('strengthened') or d.get('why_missed') or d.get('note') or ''
    if caught and d.get('weak'): note='WEAK: '+d['weak']+('; '+note if note else '')
    note=note.replace('|','/').replace('\n',' ')
    if len(note)>230: note=note[:227]+'...'
    first='yes' if (caught and not d.get('strengthened')) else 'no'
    if first=='yes' and d.get('description_known_before_check_was_built'): first='yes*'
    rows.append((d['property'], n, first, 'caught' if caught else 'MISSED', how, note))
print('| property | seeded change | reported at first run | now | rule that reports it | note |')
print('|---|---|---|---|---|---|')
for r in rows: print('| '+' | '.join(r)+' |')
c=sum(1 for r in rows if r[3]=='caught'); w=sum(1 for r in rows if r[5].startswith('WEAK')); f=sum(1 for r in rows if r[2]=='yes'); fs=sum(1 for r in rows if r[2]=='yes*'); print(f'\n{len(rows)} seeded changes confirmed; {f} were reported (at the right construct) by checks that existed before the change arrived, {fs} more (yes*) by checks finished after the description of the sub-agent had been read (rules planned in the design round, but not an independent test); after strengthening {c} are reported ({w} of them only through a lost anchor or an undecided site, marked WEAK); {len(rows)-c} are not (each with the reason).')
