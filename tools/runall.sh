#!/bin/bash
# usage: tools/runall.sh [quick|thorough]   — runs every claimed check, prints a summary line per property
cd /verif
tier=${1:-quick}
ids=$(python3 -c "import json;print(' '.join(c['property_id'] for c in json.load(open('MANIFEST.json'))['checks']))")
fail=0
for p in $ids; do
  out=$(bin/mdscheck -prop $p -tier $tier 2>&1); rc=$?
  line=$(echo "$out" | grep -E "^(OK|VIOLATION|ERROR)" | tail -1 | cut -c1-160)
  kf=$(echo "$out" | grep -c "^KNOWN-FINDING")
  echo "$p rc=$rc known=$kf $line"
  if [ $rc -ne 0 ]; then fail=1; echo "$out" | grep -v "^KNOWN-FINDING" | head -8 | cut -c1-220; fi
done
python3-vt - <<'PY' || fail=1
import json, jsonschema, glob, sys
s=json.load(open('/root/.vp/EVIDENCE.schema.json'))
bad=0
for f in sorted(glob.glob('/verif/evidence/C??.json')):
    try: jsonschema.validate(json.load(open(f)), s)
    except Exception as e:
        bad=1; print('EVIDENCE INVALID', f, str(e)[:200])
print('evidence files valid' if not bad else 'evidence problems')
sys.exit(bad)
PY
exit $fail
