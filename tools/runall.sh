#!/bin/bash
# usage: tools/runall.sh [quick|thorough]   — runs every claimed check, prints a summary line per property
cd /verif
tier=${1:-quick}
ids=$(python3 -c "import json;print(' '.join(c['property_id'] for c in json.load(open('MANIFEST.json'))['checks']))")
fail=0
for p in $ids; do
  out=$(bin/mdscheck -prop $p -tier $tier 2>&1); rc=$?
  line=$(echo "$out" | grep -E "^(OK|VIOLATION|ERROR)" | tail -1 | cut -c1-160)
  kf=$(echo "$out" | grep -c "^KNOWN-FINDING")
  echo "$p rc=$rc known=$kf $line"
  if [ $rc -ne 0 ]; then fail=1; echo "$out" | grep -v "^KNOWN-FINDING" | head -8 | cut -c1-220; fi
done
exit $fail
