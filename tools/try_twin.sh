#!/bin/bash
# usage: tools/try_twin.sh <twin> <prop>... — applies the twin's patch to a scratch copy and runs the quick checks named
n=$1; shift
t=$(mktemp -d /tmp/trytwin.XXXXXX)
rsync -a --exclude .git /repo/ $t/
(cd $t && patch -p1 -s < /verif/refactors/$n/patch.diff) || { echo "PATCH DOES NOT APPLY"; rm -rf $t; exit 2; }
for p in "$@"; do MDS_DUMP=${MDS_DUMP:-} ${MDSCHECK:-/verif/bin/mdscheck} -prop $p -tier quick -repo $t -evidence none 2>&1 | grep -v "^KNOWN-FINDING" | cut -c1-${W:-400}; done
rm -rf $t
