#!/usr/bin/env python3
"""usage: ingest_all.py <prop> <outdir>   — ingests <outdir>/change*/ with names derived from notes.md;
the package directory of the demonstration is read from the test file's location hint in notes.md or
guessed from the patch."""
import os, re, subprocess, sys, glob
prop, out = sys.argv[1], sys.argv[2]
def slug(s):
    s = re.sub(r'[`*_#]', '', s)
    s = re.sub(r'(?i)^\s*(c\d\d\s*)?(change|seed(ed)?)\s*\d+\s*[-–—:.]*\s*', '', s.strip())
    s = re.sub(r'(?i)^\s*c\d\d\s*[-–—:.]*\s*', '', s)
    words = re.findall(r'[A-Za-z0-9]+', s.lower())
    stop = {'the','a','an','of','to','in','on','for','and','is','its','it','that','with','by','as','at','from','when','so','be','are','into'}
    words = [w for w in words if w not in stop][:6]
    return '-'.join(words) or 'change'
for d in sorted(glob.glob(os.path.join(out, 'change*'))):
    if not os.path.exists(os.path.join(d, 'patch.diff')):
        continue
    title = ''
    np = os.path.join(d, 'notes.md')
    if os.path.exists(np):
        for line in open(np):
            if line.strip():
                title = line; break
    patch = open(os.path.join(d, 'patch.diff')).read()
    m = re.search(r'^\+\+\+ b/([^/\n]+)/', patch, re.M)
    pkgdir = m.group(1) if m else ''
    # the demonstration's directory: from its package clause / notes
    notes = open(np).read() if os.path.exists(np) else ''
    m2 = re.search(r'(?:directory|dir|belongs? in|goes in|placed in|put in)\s+`?([a-z]+)/`?', notes)
    if m2 and os.path.isdir('/repo/' + m2.group(1)):
        pkgdir = m2.group(1)
    name = f"{prop}-{slug(title)}"
    k = 2
    base = name
    while os.path.exists('/verif/seeded/' + name):
        name = f"{base}-{k}"; k += 1
    r = subprocess.run(['python3', '/verif/tools/ingest_seed.py', prop, d, name, pkgdir], capture_output=True, text=True)
    tail = (r.stdout + r.stderr).strip().splitlines()[-3:]
    print(name, '|', ' / '.join(t[:230] for t in tail))
