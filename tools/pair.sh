#!/bin/bash
# usage: tools/pair.sh <twin r7fix-Cxx-k> <prop>... — the corrected refactoring must be silent, its slipped version reported
tw=$1; shift
sd=$(python3 -c "import json;print(json.load(open('/verif/refactors/r7pairs.json'))['$tw'])")
for p in "$@"; do
  echo "--- $tw [$p] fixed:"; W=${W:-260} /verif/tools/try_twin.sh $tw $p | head -${N:-6}
  echo "--- $sd [$p] slip:"; /verif/tools/try_seed.sh $sd $p | cut -c1-${W:-260} | head -${N:-6}
done
