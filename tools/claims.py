# One claim() per property whose check is built.  Text says what is decided and what is not.
claim("C09", "proof", "flow-sensitive must-lockset analysis over go/ssa CFG + call-graph re-entry check + who-may-access rule",
      "Proof of the mutual-exclusion / atomic-section clause: every access to guarded Cache state, every Store call and every callback call "
      "happens with the mutex held for the whole of a single critical section per method; nobody else can reach that state; no re-entry; "
      "no goroutines. This gives race freedom and linearizability relative to the sequential behaviour for every schedule, because the argument "
      "is schedule-independent. It does NOT decide the sequential LRU behaviour (C08) or liveness.",
      BASE_NOTE + " Assumes callbacks do not re-enter the cache, a Store is not shared between caches, sync.Mutex semantics.",
      "DESIGN.md section 3, C09")
claim("C16", "model_checking", "table extraction from the typed AST + exhaustive product construction against a POSIX reference transducer; SSA rules tie the interpreter loop to the table",
      "Exhaustive comparison of the transducer extracted from the source tables (update, classOf, initial state, per-action effects of Scanner.Next, end-of-input verdict, "
      "Complete) with an independently written POSIX reference transducer: every reachable (implementation state, reference state, class) triple and every end-of-input verdict "
      "is compared, which covers every input string. Structural rules add chunking independence (input only through ReadByte), permanent stop after end of input, Rest handing back "
      "the same buffered reader, stoppable Each, pooled scanner reset. Does NOT decide agreement with a real /bin/sh (nothing is executed); the reference transducer is trusted.",
      BASE_NOTE + " traces_validated_against_impl is 0 by construction of this family: the model IS the source table, linked to the interpreter by rule R-FST-INTERP.",
      "DESIGN.md section 3, C16")
