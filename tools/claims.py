# One claim() per property whose check is built.  Text says what is decided and what is not.
claim("C09", "proof", "flow-sensitive must-lockset analysis over go/ssa CFG + call-graph re-entry check + who-may-access rule",
      "Proof of the mutual-exclusion / atomic-section clause: every access to guarded Cache state, every Store call and every callback call "
      "happens with the mutex held for the whole of a single critical section per method; nobody else can reach that state; no re-entry; "
      "no goroutines. This gives race freedom and linearizability relative to the sequential behaviour for every schedule, because the argument "
      "is schedule-independent. It does NOT decide the sequential LRU behaviour (C08) or liveness.",
      BASE_NOTE + " Assumes callbacks do not re-enter the cache, a Store is not shared between caches, sync.Mutex semantics.",
      "DESIGN.md section 3, C09")
