# One claim() per property whose check is built.  Text says what is decided and what is not.
claim("C09", "proof", "flow-sensitive must-lockset analysis over go/ssa CFG + call-graph re-entry check + who-may-access rule",
      "Proof of the mutual-exclusion / atomic-section clause: every access to guarded Cache state, every Store call and every callback call "
      "happens with the mutex held for the whole of a single critical section per method; nobody else can reach that state; no re-entry; "
      "no goroutines. This gives race freedom and linearizability relative to the sequential behaviour for every schedule, because the argument "
      "is schedule-independent. It A Lock/Unlock whose mutex is addressed through a by-value copy of the cache (value receiver, local copy) is not an operation on the shared mutex and is reported. An exported method that leaves the locking to a callee makes exactly one lock-acquiring call, not in a loop; closures and helpers that only relay to a function touching guarded state take part in the entry-lockset fixpoint. does NOT decide the sequential LRU behaviour (C08) or liveness.",
      BASE_NOTE + " Assumes callbacks do not re-enter the cache, a Store is not shared between caches, sync.Mutex semantics.",
      "DESIGN.md section 3, C09")
claim("C16", "model_checking", "table extraction from the typed AST + exhaustive product construction against a POSIX reference transducer; SSA rules tie the interpreter loop to the table",
      "Exhaustive comparison of the transducer extracted from the source tables (the transition table and byte-class table located by their use in Scanner.Next, not by name; initial state, "
      "per-action effects of Scanner.Next derived from what each arm does, class meaning derived from the bytes assigned to each class, end-of-input verdict, "
      "Complete) with an independently written POSIX reference transducer: every reachable (implementation state, reference state, class) triple and every end-of-input verdict "
      "is compared, which covers every input string. Structural rules add chunking independence (input only through ReadByte), permanent stop after end of input, Rest handing back "
      "the same buffered reader, stoppable Each, pooled scanner reset. (R-RESULT-FRESH) the token slice Scanner.Split returns is allocated by that call and not kept in the pooled scanner. Does NOT decide agreement with a real /bin/sh (nothing is executed); the reference transducer is trusted.",
      BASE_NOTE + " traces_validated_against_impl is 0 by construction of this family: the model IS the source table, linked to the interpreter by rule R-FST-INTERP.",
      "DESIGN.md section 3, C16")
claim("C05", "other", "affine index-form extraction from go/ssa + must-pass-through path rules",
      "Decides two necessary structural conditions of heap order named in the property's rationale: (1) the parent index used by sift-up and the child indices used by "
      "sift-down are mutually inverse (extracted as affine forms from the SSA; arithmetic on the constants), the children form one block and the root is nobody's child; "
      "(2) a slot overwritten at an arbitrary offset (Remove(i)) is sifted down and, unless that moved it, sifted up on every path; plus every bulk heapify loop covers all "
      "internal nodes down to the root, and Each is stoppable. Today's tree violates (1): known finding F1 (see known_findings.json). (R-CMP-SIGN) comparison results are tested by sign only, also through a less(i, j) helper; (R-REORDER-INSTALLS) Reorder stores its argument as the comparison on every path; (R-SORT-INPLACE) nothing Sort reaches replaces the queue's buffer by a fresh allocation, because Sort's result is what is left in its argument. (R-POP-CONSERVES) the removal helper writes the tail element into slot i before cutting the tail slot off; (R-LEN-EFFECT) a symbolic length-effect analysis: every path of Add/Pop/Remove/Clear/Set that rewrites the buffer leaves its length at L0+1 / L0−1 / 0 / len(vs), other methods leave it unchanged; (R-SORT-SHORTCUT) a sortedness shortcut in Sort uses the caller's comparison. Does NOT decide that Front/Pop is "
      "minimal for every history, multiset conservation, or Sort's result.",
      BASE_NOTE + " Sift functions are located by role (loop + exchange call), names are not used.",
      "DESIGN.md section 3, C05")
claim("C06", "other", "must-pass-through pairing of slot writes with position reports; who-may-write rule on the LRU index",
      "Decides: every write of a heap slot in heapq.Queue (element store, append, copy) is followed on every path by a position report for that very slot with the element "
      "loaded after the write, or the slot is truncated away; Add returns sift-up's result on the append index; the LRU store's key->offset index has exactly the writers "
      "{update callback with its own arguments, Store with Add's result} and deleters paired with the heap removal, and the callback is installed before the store escapes. "
      "After a bulk write no return is reachable without entering the reporting loop. Does NOT decide that reported offsets are right for every history (follows from these rules plus array semantics, not checked).",
      BASE_NOTE,
      "DESIGN.md section 3, C06")
claim("C10", "other", "typestate dataflow (cursor validation), store classification with must-precede invalidation, mirror pairing, must-pass-through",
      "Decides structural necessary conditions: in package mlink every access to the links through a cursor's current position is preceded on all paths by a validation of that "
      "very position (so a stale cursor panics, never hangs or edits), the validator tests exactly the marker the detach sites write, every link store that drops entries is "
      "preceded by their invalidation, mlink.Queue re-seats its cached tail cursor whenever the entry it hangs on can be detached and pairs each size change with exactly one "
      "insert/remove/clear; in package ring every next-link write has its mirror prev-link write in the same block; Each iterators stop when told. (R-NOOP-GUARD, package ring) a no-op exit taken on x.f == v is justified only by a store of v into x.f in the same function; (R-LEN-EFFECT, package stack) every path of Push/Add/Pop/Clear that rewrites the list leaves its length at L0+1 / L0−1 / 0. (R-WRAP-CHECKED) every node Ring.At returns that was reached through a link has been compared with the receiver. Does NOT decide that the "
      "resulting sequences or cycles are the documented ones, Stack behaviour beyond Each, or termination of ring walks.",
      BASE_NOTE + " Assumes iteration callbacks do not mutate the container.",
      "DESIGN.md section 3, C10")
claim("C17", "other", "provenance of slice expressions (3-index clip rule), non-zero divisor analysis with branch facts and predicate summaries, dominance guard, exchange pairing",
      "Decides structural clauses of the property: every subslice of the input handed out by Partition/Chunks/Batches is capacity-clipped (Max == High); no integer division or "
      "remainder in package slice can have a zero divisor (this is the 'never panics for an allowed argument' clause for the arithmetic faults; it found Batches(empty, n>0), "
      "repaired in /repo 2160ede); At/PtrAt index only under a successful strict range check; Partition writes its input only by exchange, so it stays a permutation. "
      "A subslice bound derived from cap(input) is a violation of the clip rule. (R-ALLOC-BOUNDED) an allocation sized by a bare count parameter is reached only with the count bounded by a length (at the site or at every call site of an unexported helper). Does NOT decide which elements end up where (Partition order, Rotate's permutation, chunk/batch lengths, Head/Tail/Stripe contents).",
      BASE_NOTE,
      "DESIGN.md section 3, C17")
claim("C12", "other", "provenance (origin) analysis of every write event with callee mutation summaries; strictness/lean agreement read from the SSA",
      "Decides: none of LCS/LCSFunc/LIS/LISFunc/LNDS/LNDSFunc/bisectRight/EditScript/editScriptFunc nor their closures can write through an input slice (every element store, "
      "copy destination, append base, clear and mutating-callee argument has a provenance of allocations made in the function); and in LISFunc/LNDSFunc the strictness of the "
      "fast-path comparison agrees with the lean of the binary search used (LNDS: >= with right-leaning search read from bisectRight's body; LIS: > with left-leaning "
      "slices.BinarySearchFunc) - the only documented difference between the two. (R-CMP-SIGN) comparison results are tested by sign only; the strict variant takes no shortcut on slices.IsSorted*; (R-SIBLING-GUARD) where an element of one input is compared with an element of the other, the dominating guards constrain both indices or neither. LCS hands its two inputs to LCSFunc as they are. LCSFunc, LISFunc and LNDSFunc hand back a parameter (directly or through a helper) only where it is known to be empty. Does NOT decide that the results are subsequences of maximum length.",
      BASE_NOTE + " Standard-library mutators are a frozen table; user comparison callbacks are outside the rule.",
      "DESIGN.md section 3, C12")
claim("C18", "other", "fresh-and-non-nil provenance analysis with per-function summaries; guarded-update path rule",
      "Decides: every set returned by New, NewSize, Clone, Intersect, Range, Keys and Values is allocated inside the call, provably non-nil, and never a parameter (so it cannot "
      "alias an argument); AddAll on a nil receiver stores a clone, not its argument; in pointer-receiver methods every update of *s is preceded on all paths by *s != nil or by "
      "storing a fresh map. (R-LIST-WHOLE) a variadic list of items is never re-sliced to an upper bound other than its own length: every listed item counts. (R-ARG-IMMUTABLE) map updates and deletes go through the receiver or a fresh map, never through an argument set. Does NOT decide the set-theoretic answers of Intersects/IsSubset/Equals/HasAll/HasAny/Intersect, Pop, or Slice/Append contents.",
      BASE_NOTE,
      "DESIGN.md section 3, C18")
claim("C19", "other", "one-variable interval abstract interpretation (|buf|-cap) with transfer functions derived from mapset's bodies; store-shape and control-dependence rules",
      "Decides: 'Len never exceeds the buffer size' as an inductive invariant of every Counter method, found by abstract interpretation of |buf| - cap with guards, joins and "
      "widening (it found the single-pass halving defect, repaired in /repo 5fe64df); p is only ever set to MaxUint64 or shifted right and Count is Len x 2^LeadingZeros64(p), "
      "so the scale never decreases before Reset; Reset empties the buffer together with p := MaxUint64 (both directions); removals and halvings are control-dependent on "
      "p < MaxUint64 or Len >= cap, so below capacity the buffer is the exact set; and two structural necessary conditions of unbiasedness: every path through Add re-decides "
      "the value's membership (removes or adds it), and every removal pass is followed by a halving of p before the next pass or return. (R-PASS-COMPLETE) a removal pass over the buffer has no exit but exhaustion; (R-SEED-FRESH) each counter's random source is seeded from a local buffer filled by crypto/rand in the constructor call. Does NOT decide unbiasedness itself "
      "(a statement about a probability distribution) or the p = 0 corner.",
      BASE_NOTE + " Assumes NewCounter is called with size >= 1.",
      "DESIGN.md section 3, C19")
claim("C20", "other", "linear-form + congruence reasoning over induction variables for unsafe word accesses; closure/dominance rules for Trunc; value-set rule for CompareNatural",
      "Decides: each unsafe 8-byte access in mbits (Zero, LeadingZeroes, TrailingZeroes) satisfies 0 <= i and i+8 <= len(data) for every length - index expressions are reduced "
      "to linear forms over n and n&^7 with congruences mod 8 from the loop step and bounds from initial values and dominating guards ('never reading or writing outside it'); "
      "Trunc returns s or a prefix s[:h] with h reached from n by decrements only, under n < len(s), and every s[h-1] is guarded by h > 0 (prefix of at most n bytes, no panic); "
      "every value CompareNatural returns is a cmp.Compare result, hence in {-1,0,1}. (R-CLASS-AGREE) the two token parsers of CompareNatural classify characters with the same named predicate. Does NOT decide that the zero counts are right, UTF-8 validity of the result beyond the byte-class tests, the 'at most 4 bytes "
      "shorter' clause, or that CompareNatural is a total preorder.",
      BASE_NOTE,
      "DESIGN.md section 3, C20")
claim("C07", "other", "abstract interpretation of package queue: intervals with bounds linear in the buffer length L (two regimes L=0 / L>=1, path-sensitive for loop-free methods, joined fixpoint for loops, helper methods followed), residue classes mod L of every ring position against a per-method ring-deque specification, must-pass rotation rule",
      "Decides the ring arithmetic of wrap-around on the no-growth paths and the memory safety of all paths: every index into the ring buffer lies in [0, L-1] and every slice within [0, L] for the CURRENT buffer, "
      "every return re-establishes 0 <= n <= L and 0 <= head <= max(L-1, 0) (inductive step of the ring invariant; constructors start from 0), every % len(vs) is reached only with L >= 1; "
      "and on every path that neither grows nor rotates the buffer the slot touched is the one the deque semantics prescribes, as a residue class mod L relative to the entry state: "
      "Add writes head+n, Push writes head-1 and leaves head = head-1, Pop reads head and leaves head+1 (free when empty), PopLast reads head+n-1, Front reads head, Peek(i) reads head+i (head+n+i for i<0), "
      "Each/Slice walk from head in steps of one, n changes by exactly +1/-1/0, and every element that is read lies in the live window head … head+n-1 (Front/Pop/PopLast only when non-empty, Peek only for offsets proved within 0 … n-1). The buffer is only extended by append when it is exactly full (n == len) and starts at cell 0 (branch fact or "
      "Rotate(vs, -head) followed by head = 0), so the appended cell is logical position n, and the slot classes continue in the grown buffer with head = 0 (Push's slot after growth); Each is stoppable. "
      "Does NOT decide slice.Rotate's own correctness (that rotating by -head brings the elements to cells 0..n-1 in order), the number of elements Each visits (for Slice the number is decided, R-SLICE-LEN), "
      "the content of bulk copies, nor — as a whole — that the contents equal the reference deque over arbitrary histories.",
      BASE_NOTE + " The struct invariant 0<=head<len, 0<=n<=len is assumed at method entry and re-established at every return (inductive). The per-method slot specification is written from the documented deque semantics of the exported API (method names are the anchors).",
      "DESIGN.md section 3, C07")
claim("C08", "other", "in-block pairing of departures with callback/size/count effects, loop-exit fact for the size bound, effect summary (purity) of Check, clock tick pairing",
      "Decides the accounting clauses structurally: each departure from the store (Remove of a key found by Check, or Evict) is paired with exactly one eviction callback on that "
      "very (key, value), one size -= sizeOf(value) and one count-1, and none of these happens without a departure; an arrival is paired with count+1 and a size that includes "
      "sizeOf(val); size only ever receives a value proved <= limit by the exit edge of the eviction loop `for size > limit` (or decreases by a sizeOf result); a Put larger than "
      "the limit is refused before any effect; Has uses only Store.Check, which (transitively) has no effects; every lastAccess is a freshly ticked clock value. "
      "(R-CLEAR-ALL) every return of Clear lies behind a branch edge on which count <= 0 holds. (R-SIZEFN-FAITHFUL) the size function installed in the cache is the configured one, a closure returning exactly its result, or a constant default; an eviction helper that leaves the accounting to its callers is summarised and each call site held to it. Does NOT decide which entry is evicted (needs a correct heap - C05/F1 - and a history argument) nor agreement with a reference LRU cache.",
      BASE_NOTE + " Assumes the size function is non-negative.",
      "DESIGN.md section 3, C08")
claim("C15", "model_checking", "explicit-state abstract execution of Quote and Join (callees inlined) over byte-class strings, composed with the tokenizer model extracted for C16 and with the POSIX reference transducer; exploration-based summaries of whole-string predicates; pool-discipline path rules",
      "Decides, at the level of byte classes (the partition of the 256 byte values induced by every byte test in the code, the tokenizer's class table, the POSIX classes and the POSIX set of "
      "special characters) and for all strings and lists of strings: Split(Join(ss)) == ss with the input reported complete, Split(Quote(s)) == [s], and a POSIX word-splitting reading of "
      "Quote(s) yields the single word s with every byte special to a POSIX shell inside single quotes or after a backslash. Quote and Join are explored exhaustively as finite-state programs "
      "(control-flow graphs of the functions and of every package-local callee, values abstracted to booleans, small integers, byte classes and per-string summaries); every byte they write is "
      "pushed through the package's own tokenizer (table, class table and per-action effects extracted from the source, as for C16) and through an independently written POSIX transducer; "
      "checked on every path: input bytes visited once in order and written exactly once, read back as themselves, quoting syntax read back as nothing, word boundaries exactly between the "
      "strings of Join, an empty string still yields a word, the result ends complete. Each whole-string predicate (quotable) is shown by exploration to be 'some byte lies in a fixed set' "
      "and scanned to the end unless all results are already true; the sets must contain every POSIX-special byte and every byte the tokenizer does not treat as ordinary. Pooled buffers are "
      "reset before use, returned on every exit and never escape; Split's results come only from the scanner. "
      "Join reads the elements of its argument one by one from the first to the end of the list. Does NOT decide what a real /bin/sh does beyond the written POSIX reference, or strings with NUL.",
      BASE_NOTE + " POSIX XCU 2.2's list of special characters and the reference transducer of C16 are the oracles; the tokenizer model is the one checked under C16.",
      "DESIGN.md section 3, C15")
claim("C01", "other", "provenance of clone's links; stop-flag path rule; orientation derived from the in-order walk and checked on descents, navigation and the bulk loader; value-flow of the stored root; must-pass dedup",
      "Decides structural clauses: Tree.Clone is a deep copy (every node allocated by node.clone links only to copies, the original is never written, Clone's root is clone(root)) so "
      "clone and original cannot affect each other; in-order iteration stops when told and forwards the stop flag; the side holding smaller keys is read from the ascending in-order "
      "walk and all four key descents (insert, remove, Get, pathTo), Min/Max, popMinRight, inorderAfter and the bulk loader agree with it, with comparator results tested by sign; "
      "popMinRight re-attaches the removed minimum's subtree; the root stored by Add/Replace/Remove derives from the modification's result on every changing path; New sorts and "
      "de-duplicates on every path to the bulk loader; the cached element count (Len, IsEmpty) changes only by +1 under a successful insertion, -1 under a successful removal, or to 0 "
      "with the root dropped. (R-CMP-SIGN) every test of the comparison's result against a constant is a pure sign test (x == -1 and the like are violations: comparisons may return a-b); (R-REBUILD-USED) the subtree returned by the in-place rebuild is returned or stored in a link, never dropped. (R-LINK-STALE) a child link copied into another link was read after the last call that could rewrite it; (R-NIL-DROP) a link of a retained node is set to nil only when the old child is known nil, childless or re-attached; (R-READONLY) lookups, iteration, cursor construction and cloning store to no field of Tree or node; the cached count handed to the rebuild is final. Does NOT decide that contents and results equal a reference set over histories, the max bookkeeping, or the DSW rebuild.",
      BASE_NOTE + " Assumes iteration callbacks do not mutate the tree.",
      "DESIGN.md section 3, C01")
claim("C03", "other", "dominance guard (Valid) on every cursor dereference; provenance of Clone's path; orientation table; sibling agreement (HasNext~Next, HasPrev~Prev); delegation rule for Inorder",
      "Decides structural clauses: every dereference of a cursor in its methods (and every call of the private findNext/findPrev) is dominated by a successful Valid() check and the "
      "invalid path returns the receiver / false / the zero key - so operations on a nil or exhausted cursor are harmless no-ops; Clone copies the path (or returns the receiver "
      "only when invalid) so clones move independently; every navigation method reads the child sides binary-search-tree navigation requires relative to the in-order orientation; "
      "HasNext/HasPrev apply exactly the tests Next/Prev apply to findNext/findPrev's results, so they predict the move; Cursor.Inorder delegates to the subtree walker on the "
      "current node and is stoppable. (R-ASCEND-GATED) Next (Prev) shortens or drops the path only on paths where a large-side (small-side) child link has been read, directly or in findNext/findPrev: the neighbour is an ancestor only when that subtree is empty. (R-CMP-SIGN) comparison results are tested by sign only. (R-PATH-COMPLETE) the search that builds a cursor's path appends the node on every trip round its loop; (R-PATH-FRESH) the path stored in a new Cursor is freshly allocated; (R-READONLY) read-only operations store to no field of Tree or node; HasNext/HasPrev give every answer other than false after consulting findNext/findPrev. Does NOT decide that Next/Prev land on exactly the adjacent key for every tree shape, nor Cursor(key) validity.",
      BASE_NOTE,
      "DESIGN.md section 3, C03")
claim("C04", "other", "dominance guard (!= nil) with kill check on every use of the tree pointer; shared stree rules (descents, relink, cursor nil-safety); reset-first rule for Seek",
      "Decides: 'a zero Map behaves as an empty read-only map' - every use of Map.m / Iter.m as a (bound) method receiver in package omap is under a != nil guard of the same field "
      "(Map.Set exempt as documented), and the cursor methods omap calls on a possibly nil cursor are nil-safe (C03's guard rule re-run); the tree's key descents agree with "
      "iteration order and test comparator results by sign; deleting a two-child node re-attaches the successor's subtree; Seek invalidates the cursor before searching so a seek "
      "past the last key leaves the iterator invalid. (R-NATURAL-ORDER) omap.New installs cmp.Compare, or a comparison that reaches it or handles x != x: a hand-written three-way comparison on < and > makes NaN equal to every key. (R-REBUILD-USED, R-ROOT-FLOW, shared with C01) the rebuilt subtree and the modified root are kept. (R-LINK-STALE, R-NIL-DROP, R-READONLY, R-PATH-FRESH, R-PATH-COMPLETE, shared with C01/C03) link edits of removal, read-only lookups and fresh cursor paths. Does NOT decide agreement with a reference sorted map, Seek's exact position, or iterator order.",
      BASE_NOTE,
      "DESIGN.md section 3, C04")
claim("C11", "other", "provenance of span fields in Edit literals; index-variable side separation; opcode/field table; exhaustiveness of EditOp switches (typed AST)",
      "Decides structural clauses: every Edit the script builder creates takes X from a slice expression over lhs and Y from one over rhs ('the very spans', which value-comparing "
      "tests cannot see) and bounds each span with its own side's offsets; every Edit literal in packages slice and mdiff sets exactly the fields documented for its opcode; "
      "every switch over EditOp in non-test code handles all four opcodes or has a default arm that panics or returns an error. (cursor families) a cursor family of the builder that indexes or bounds spans of an input never also indexes the common subsequence; (R-SIBLING-GUARD) guards before a comparison of an element of each input constrain both indices or neither. The run of kept elements is counted from the offset its Emit span starts at; no Edit is built under a boolean carried round the loop and never cleared; spans assigned after construction are held to the same provenance as literals. (R-LCS-FRESH) LCSFunc hands back a parameter only where it is known to be empty. Does NOT decide that applying the script yields "
      "rhs, minimality (LCS length), canonical form, emptiness iff equal, or exact span bounds.",
      BASE_NOTE,
      "DESIGN.md section 3, C11")
claim("C13", "other", "who-may-write rule on Diff.Edits; provenance/aliasing rules for context spans; guarded in-place append; mirrored-update pairing of left/right ranges",
      "Decides structural clauses: Diff.Edits is set once by New and nothing in mdiff writes through it; the in-place context merge in Unify happens only between two Emit edits, "
      "New never puts an Emit edit of the script into a chunk, AddContext's Emit edits have freshly allocated spans and findContext's two results do not share a backing array "
      "(so merging cannot write into Left, Right, the script or the other span); Unify edits the chunk's own edit list (not local copies) and keeps chunks apart only across a "
      "strict gap; every update of a chunk's left range has the mirrored update of its right range in the same block (in New: each range end advances together with that side's "
      "running position, by the number of X resp. Y lines of the edit); no chunk's edit list is a slice of the script; an index into Left/Right is bounded by its own length, not "
      "only by the sibling's. (R-SIBLING-GUARD) where d.Left[p] is compared with d.Right[q] the dominating guards constrain both indices or neither. (R-DROP-GUARDED) an edit leaves a chunk's list only under a test on its span's length or after its span was appended to its neighbour; (R-JOIN-LAST) no span is trimmed after the boundary context edits were joined in the same iteration; (R-ALLOC-BOUNDED) no allocation sized by the bare context count. (R-MERGE-TARGET) the chunk a successor is compared and merged with is read from the kept chunks each time round or is a variable the loop updates. Does NOT decide that ranges and edits describe a correct "
      "patch; context found by positional comparison across a neighbouring chunk (a data-dependent fault known from earlier dynamic work) has no structural signature.",
      BASE_NOTE,
      "DESIGN.md section 3, C13")
claim("C14", "other", "inconsistent-belief rule on the span parser's sentinel; writer/reader constant tables compared by value (typed AST); exhaustive EditOp switches; aliasing rule on handed-out chunk slices",
      "Decides structural clauses of the round trip: every caller of the span parser tests its omitted-count sentinel before using the count (today readUnifiedChunk does not: "
      "known finding, see known_findings.json); the constants the Unified and Normal writers emit and the constants the readers classify by agree by value (line prefixes per "
      "opcode and payload offsets, '@@' tokens and span tags, file-header prefixes, name/time separator, change-command letters and their opcodes, '< ' '> ' '---'); both header "
      "timestamps are parsed with the writers' default format constant; every formatter and the reader handle all opcodes; overlapping context is trimmed from the correct end; "
      "the git-patch reader does not reuse the backing array of chunks it already returned. (R-HEADER-SIDES) a header-writing call receives a (name, time) pair of FileInfo fields that the reader fills from one header line; (R-LINE-EXACT) the readers' line source removes nothing but the final newline (no bufio.Scanner with the default split, ReadLine, TrimSpace/TrimRight); (R-BOUND-SIDE, R-SIBLING-GUARD, shared with C13) context lines are indexed under guards on their own side. (R-SENTINEL-COMPLETE) a return carrying the sentinel error the git-patch reader tolerates is preceded by the store that records the chunk; (R-TIME-EXACT) the parsed header time is handed on as time.Parse produced it; (R-CONTEXT-FRESH, shared with C13) leading and trailing context are separate allocations. Does NOT decide byte-for-byte re-formatting or that a rendering applied by the "
      "published rules turns Left into Right; the spelling of empty ranges (a conformance fault known from earlier dynamic work) has no structural signature and is not decided.",
      BASE_NOTE,
      "DESIGN.md section 3, C14")
claim("C02", "other", "affine/guard rules on the recursive insertion's depth budget and on the scapegoat rebuild site",
      "Decides ONLY that the mechanism enforcing the bound is wired, not the bound itself: the recursive insertion's depth budget decreases by a positive constant on both "
      "descents, creating a node with the budget exhausted raises the 'too deep' flag, Add/Replace start the budget from limit(size[+1]); under a raised flag and "
      "height > limit(subtree size) the subtree is rebuilt with (sibling size + 1 + flagged size), the rebuilt subtree is returned and the flag cleared. Each is a necessary "
      "condition of the height bound (without it ascending insertions grow an unbounded path). The goat criterion's limit is taken for the very size the subtree is rebuilt with (same terms, same constant). (R-LOOKUP-COST, the property's last clause) everything Tree.Get reaches compares keys at exactly one site, inside the descent: one comparison per level. Does NOT decide the numeric bound (floating-point limitFunc, scapegoat choice, "
      "that the DSW rebuild balances, delete-side threshold) nor the minimum-height claim for New - for those no sound static argument is in reach.",
      BASE_NOTE + " This is the weakest claim in the manifest: a wiring check, kept because each obligation is a genuine necessary condition.",
      "DESIGN.md section 3, C02 and section 8.2")

# ---- rules added after the fifth round of seeded changes: one sentence each, inserted before "Does NOT decide"
def also(pid, text):
    t = CLAIMED[pid]["text"]
    i = t.find("Does NOT decide")
    CLAIMED[pid]["text"] = (t[:i] + text + " " + t[i:]) if i >= 0 else (t + " " + text)

SIZE_GUARD = ("(R-SIZE-GUARD) a branch on len(container) against a constant that leaves the function having done nothing covers only "
              "sizes for which nothing needs doing (0; 1 for in-place permutations).")
also("C01", SIZE_GUARD + " (R-COUNT-FIELD, R-REMOVE-PROMOTE) IsEmpty tests the field Len returns; a whole-tree rebuild is counted by the tree's count field; the child "
     "promoted in place of a removed node is not one known to be nil while its sibling is not.")
also("C03", "(R-CURRENT-NODE, R-CURSOR-EQUAL) cursor predicates and moves read the children of the last element of the path; Tree.Cursor hands out a positioned cursor only where the comparison with the key was == 0.")
also("C04", "(R-SIZE-PAIR, R-COUNT-FIELD under C04) the tree's count is set to 0 only together with the root, and rebuilds are counted by it.")
also("C02", "(R-DEPTH-BUDGET) the height a recursive call returns is incremented on both sides before use, and New builds the limit function from the balance parameter; "
     "(R-FRACTION-RANGE) by interval evaluation the weight fraction computed from the balance parameter stays within [1/2, 1] over the range New admits.")
also("C05", SIZE_GUARD + " NewWithData, Set and Reorder reach a loop that sifts its loop variable down (R-HEAPIFY-COVER); (R-OFFSET-VALID) Remove refuses exactly the offsets Peek refuses; "
     "(R-POP-CONSERVES) slot i is touched after the cut only under i < new length.")
also("C06", "(R-OFFSET-VALID) Remove refuses exactly the offsets Peek refuses; (R-POP-CONSERVES) slot i is reported after the cut only under i < new length.")
also("C08", "(R-HEAP-SHARED) the heap rules of C05/C06 that the LRU store depends on (both-direction repair, tail conservation, position reports, Add's result) are imported as obligations; "
     "Remove answers true only after the key was found and false only where it was not.")
also("C10", SIZE_GUARD + " The invalidator of detached entries walks the whole chain (a loop along the link).")
also("C11", "(R-SPAN-CONSECUTIVE) a path typestate over the script builder: on every path each emitted span of an input starts exactly where that input was left (gap 0 as a linear form, "
     "or a gap the path's own conditions declare empty), every loop back edge carries the accounted position, an Emit advances rhs by its own width, and every return leaves nothing unaccounted - "
     "the positional half of 'consumes lhs exactly and produces rhs exactly'. (R-LCS-DIAGONAL) in LCSFunc's match step the new cell's length and back pointer come from one cell, "
     "the diagonal neighbour in the other row buffer. (R-COUNTER-WIDTH) no counter narrower than 32 bits.")
also("C12", "(R-LCS-DIAGONAL) in LCSFunc's match step the new cell's length and back pointer come from one cell, the diagonal neighbour in the other row buffer; (R-COUNTER-WIDTH) no arithmetic in, "
     "or narrowing conversion to, integer types below 32 bits.")
also("C13", "(R-COND-MIRROR) a same-chunk range test on one side is accompanied by the same test on the other; (R-CONTEXT-CONTIGUOUS) in findContext unequal lines end the scan; "
     "(R-JOIN-ORDER) a span is grown in place by the neighbour's span, in that order, and the joined edit is dropped from its own list.")
also("C14", "(R-CURSOR-SIDE) a formatter's left line counter advances by len(e.X), its right one by len(e.Y); (R-UNREAD-FOREIGN) the chunk reader pushes the foreign line back before it reports the tolerated sentinel; "
     "(R-SPAN-SIBLING) the two span formatters choose the one-number form on the same linear test of (start, end).")
also("C15", "Split's pooled scanner is covered by R-POOL-RESET too, including 'no use after Put'; a class table shorter than 256 entries indexed by a byte is reported.")
also("C16", "(R-CLASSOF) the class table has an entry for every byte value.")
also("C17", SIZE_GUARD + " (R-NO-CAP-BOUND) no comparison bounds a count or index by cap(input).")
also("C18", SIZE_GUARD + " (R-PREDICATE-WITNESS) IsEmpty tests the length; HasAny answers true only after a successful membership test and never from sizes alone.")
also("C19", "The constructor stores the requested size unchanged as the buffer limit and the halving loop has an exit on an empty buffer.")
also("C20", "(R-TOKEN-CASES) text runs are compared only when neither head is numeric and values only when both are, on every path; (R-DIGIT-BASE) the radix equals the number of characters the digit predicate accepts; "
     "(R-UTF8-CLASS) Trunc's mask tests denote the UTF-8 classes (continuation exactly 0x80..0xBF; lead test contains 0xC2..0xF4 and no ASCII) from position 1 on; (R-ZERO-LEN) Zero returns len(data).")

# ---- sixth round
also("C01", "(R-EXTREME-LEAF) Min/Max return the key of a node whose small-/large-side child is nil at the return; (R-FRACTION-RANGE) the balance factors New admits map onto the whole range [1/2, 1] of weight fractions.")
also("C02", "The scapegoat test and the 'too deep' test of a new leaf are equally strict; the admitted balance factors map onto [1/2, 1].")
also("C03", "R-YIELD covers everything Cursor.Inorder hands its callback on to.")
also("C05", "(R-MOVE-NONNIL) the position callback is never set to nil; (R-EMPTY-LEN) IsEmpty tests what Len returns.")
also("C06", "(R-MOVE-NONNIL) the position callback is never set to nil; an index entry is deleted together with the removal of that key's own heap element.")
also("C07", "(R-EMPTY-LEN) IsEmpty tests the element count Len returns, not the buffer.")
also("C08", "Clear's loop ends on the entry count (an assertion that panics is not what establishes emptiness); the heap removal paired with an index deletion removes that key's own element; Remove and Peek of the heap refuse the same offsets.")
also("C10", "The invalidator's loop ends only when the entry variable is nil. (R-EMPTY-LEN) Stack.IsEmpty tests what Len returns.")
also("C12", "(R-NO-IFACE-EQ) elements of a non-comparable type parameter are never compared through interfaces; (R-SIZE-GUARD) a do-nothing exit on the length of an input covers the empty input only.")
also("C13", "(R-BOUND-SIDE) the bound is strict; (R-MERGE-TAIL) the output built so far is consulted at its last element; (R-TRIM-AMOUNT) a context span is cut by an amount a range bound is adjusted by.")
also("C14", "(R-SUCCESS-AT-EOF) a multi-patch reader reports success only behind an end-of-input edge; (R-GUARD-SIDE) a guarded section of the context format is guarded by the side-specific opcode its switch writes.")
also("C18", "(R-ARG-FLOW) AddAll's nil-receiver branch clones its argument; every result of Append is built on the slice it was given.")
also("C19", "(R-PASS-UNIFORM) in the removal pass the decision to remove depends on random bits only; (R-REFILL-COUNTER) the refill is triggered by the countdown of unused bits; (R-RECV-POINTER) methods assigning receiver fields have pointer receivers.")
also("C20", "(R-TOKEN-OK) the numeric parser's ok flag tests the cut position; digits are folded in with a radix.")

# ---- rules added or generalised in the seventh round (refactorings with one slip) and the pairs experiment
also("C01", "A child link copied into another link is not read after it was cleared (R-LINK-STALE).")
also("C02", "(R-LIMIT-KEPT) no Tree method resets the fields the depth limit is computed from (a whole-value overwrite of the receiver copies them); a rebuild that counts the subtree itself counts it before anything else touches it.")
also("C03", "(R-SIBLING-AGREE) for every answer findNext/findPrev can give (node nil or not, offset on which side of zero) HasNext/HasPrev says true exactly when Next/Prev leaves a non-empty path.")
also("C04", "(R-OK-FORWARD) a (value, ok) accessor never answers a constant ok that contradicts the ok of the lookup known on that path; (R-ITER-SIBLING) omap's First and Last initialise the same fields of the iterator they return.")
also("C07", "Index helper methods (wrap, prev, tail) are analysed at their call sites; a value found equal to a constant yields a congruence the slot rules use.")
also("C08", "A helper that does the accounting of a departure (one callback, one size subtraction, one count decrement on its parameters) is summarised and held to the departing pair at every call site; the size stored with an arrival is bounded by limit by linear facts over size and limit (loop exits, helper postconditions) with no write of size in between.")
also("C09", "(R-CALLBACK-ONCE) the clause 'every entry that leaves the cache is reported to the eviction callback exactly once' is decided by importing C08's pairing rule R-EVICT-PAIR (departure, callback and accounting lie in one critical section).")
also("C09", "A call made before the critical section is tolerated only when its callee writes nothing and its result is used for nothing but the capacity of a fresh slice.")
also("C11", "Spans are followed through windows that the builder advances by re-slicing (lhs = lhs[n:]); every slice expression on the way to the parameter is held to R-EDIT-SPAN.")
also("C15", "The library's whole-string tests on the input (strings.ContainsAny(s, const), IndexByte(s, c) >= 0, …) are summarised as 'some byte lies in a fixed set' and take part in R-QUOTABLE-BITS and R-QUOTE-SET; range loops over []byte(s), strings.ReplaceAll of one byte, and an input byte written as part of constant text are followed.")
also("C17", "(R-ALLOC-BOUNDED) also for sizes computed as len(input) + count.")
also("C18", "(R-NIL-LAZY) a map made for a nil receiver is stored back through the receiver.")
also("C19", "R-BUF-BOUND keeps one interval per state of knowledge about the argument's membership (unknown, present, absent), reads Len ± k guards, and R-EXACT-REGIME accepts Len >= cap as established by the interval analysis on every way to a removal.")
also("C01", "(R-REBUILD-EMPTY) the subtree argument of the in-place rebuild, and of the helpers it is handed on to, is dereferenced only under a nil test - Remove rebuilds an empty tree once the last key is gone.")
also("C07", "(R-SLICE-LEN) the slice Queue.Slice returns has, as a linear form over head, n and the buffer length, exactly n elements.")
# ---- mutation sweep (DESIGN 8.7)
also("C01", "R-RELINK holds on every path of the successor pop; (R-EMPTY-LEN) IsEmpty has the polarity 'true for nothing'.")
also("C02", "The sibling whose size enters the rebuilt count is assigned on both descents.")
also("C03", "(R-HAS-POLARITY) HasLeft/HasRight compare the child link with nil by !=.")
also("C04", "R-SIZE-GUARD and R-EMPTY-LEN also run over package omap (sizes read through Len()).")
also("C07", "(R-PUSH-STORES) every path of Push stores its argument into a buffer cell; a walk that reads slot head inside a loop never advances; R-SIZE-GUARD over the count field.")
also("C10", "A method whose contract grows the stack writes it on every path; IsEmpty of ring and mlink.List has the polarity 'true for nothing'.")
also("C12", "In LCSFunc a match extends the recorded chain length by exactly one.")
also("C13", "(R-CHUNKS-ALL) a range loop over a slice of chunks is left only by exhaustion; a span is trimmed only where its edit is known to be an Emit edit; an access on the path where its index is known to be beyond the length is reported; R-SIZE-GUARD over package mdiff, including requested counts.")
also("C17", "(R-OFFSET-SIBLING) offset normalisers add the length exactly when i < 0; (R-INPLACE-WRITES) an exported function with a slice parameter and no result writes through it; (R-CONST-INDEX) constant indices are covered by the dominating length tests.")
also("C18", "On the nil-receiver edge every path stores through the receiver; an answer computed from sizes alone is given only for an empty receiver; (R-CONST-INDEX) constant indices into the variadic list are covered by its length tests.")
also("C19", "In the removal pass the tested register is shifted or refilled on every way round (a fresh bit per element).")
also("C20", "R-CMP-CHAIN: after a tie the loop takes the next piece.")
# ---- second sweep (wrong sibling)
also("C01", "R-RELINK also checks which link is redirected: the one the removed minimum was reached through.")
also("C07", "(R-WALK-COUNT) the loop of Each/Slice that reads the buffer is bounded by the element count; a do-nothing exit is not keyed on an integer field other than the size.")
also("C12", "(R-ROW-LENGTH) in LCSFunc a row buffer indexed up to len(x) was allocated from len(x).")
also("C13", "(R-LR-PAIRING) in New a running position is compared only with the range fields set from it; (R-GUARD-SUBJECT) in AddContext a block guarded by len(v) != 0 uses v; an index is not left without its own bound while another value is held below that field's length.")
also("C14", "R-CURSOR-SIDE is op-aware: by how much each line counter has moved when control leaves the arm for an opcode (read off the counters' phi edges) is Drop [L+X], Copy [R+Y], Replace [L+X, R+Y], Emit [L+X, R+X]; a span helper is handed two positions of one side; a command line names left first, right last; no span formatter prints the bare end of a half-open range.")
also("C13", "In UnifyChunks the length test that lets an edit go measures the X span of that very edit; a span is cut onto itself and measured on itself; the join appends the neighbouring edit's span of the same kind.")
also("C13", "(R-STALE-READ) no pointer to an end of an edit list outlives the drop of that end.")
also("C14", "(R-STALE-READ) no field of the readers is read into a kept value right after it was reset in the same block (the chunk list handed to a Patch is read before it is cleared).")
# ---- eighth round (slips in refactored code)
also("C01", "The helper that unlinks the in-order successor hands back a node whose small-side child is nil by a dominating branch fact (it is the minimum).")
also("C04", "R-OK-FORWARD also reports an accessor that returns a lookup's value with the negation of that lookup's ok.")
also("C10", "(R-REVERSE-COPY) in Stack.Slice the copy out[A] = list[B] keeps A + B = len(list) − 1 in every round of its loop, and the rounds are 0 … len − 1.")
also("C10", "(R-DETACH-OLD-LINKS) in ring.Pop the receiver's links are read before they are overwritten (directly or through a link helper).")
also("C13", "(R-DROP-ONE) an edit list re-sliced onto itself loses exactly one edit; (R-OVERLAP-CONSUMED) where a chunk's range is moved by the overlap, every path of that iteration cuts a span by that amount or drops an edit; (R-STALE-READ c) a pointer to an end of an edit list taken before that end is dropped is not consulted for its opcode or written through afterwards, in any later block, unless taken afresh; (R-GUARD-SUBJECT) the block that attaches found context is entered whenever that context is not empty (not 'more than one line').")
also("C14", "(R-HANDOVER-RESET) an accumulator field of a reader (one that grows by append) handed over to a result inside a loop is emptied before the loop can hand it over again; (R-SPAN-SIBLING) a short-form test in which the range cancels out (start − start) is still compared with the sibling's.")
also("C09", "The `defer c.lock()()` idiom is read by the helper's body: a method that locks the receiver's mutex, does nothing else and returns its bound Unlock; its call is the Lock, the deferred call of its result the deferred Unlock.")
also("C14", "The unified format's writer and reader tables (opcode -> prefix/field, marker byte -> opcode/offset) are read off the control-flow graph as well as off switch statements (if-chains, disjunctions, early continues).")
also("C08", "(R-BUILDER-CARRIES) a Config builder that returns a fresh literal sets every field of it (no earlier setting of the chain is lost).")
also("C09", "R-CALLBACK-ONCE also imports C08's R-CLEAR-ALL: Clear's loop ends on the entry count, so no entry stays behind unreported.")
also("C10", "(R-NIL-RING) the operations of ring.Ring documented to accept an empty (nil) ring reach a dereference of the receiver only under r != nil.")
also("C13", "(R-GAP-REPOSITION) in New every path through the block that handles a gap after the current chunk sets that chunk's start from the running position.")
also("C13", "(R-BOUND-SIDE) where two sibling fields are indexed in one block and one index is tested against 0, the other is too.")
also("C18", "A count handed to an unexported helper that answers at once for count 0 is zero only for an empty collection (len(x) or min(len(x), k), never len(x) - k).")
also("C20", "(R-TRUNC-PREFIX) Trunc backs up only when it cuts; (R-CMP-RANGE) comparison helpers chosen among named functions are followed. (R-CMP-CHAIN) in CompareNatural's scope a comparison result returned under a test of itself is returned for both signs.")
