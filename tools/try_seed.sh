#!/bin/bash
# usage: tools/try_seed.sh <seed-or-patch-dir> <prop> — applies patch.diff to a scratch copy of /repo and runs the quick check there
d=$1; p=$2
[ -d "$d" ] || d=/verif/seeded/$1
t=$(mktemp -d /tmp/tryseed.XXXXXX)
rsync -a --exclude .git /repo/ $t/
(cd $t && patch -p1 -s < $d/patch.diff) || { echo "PATCH DOES NOT APPLY"; rm -rf $t; exit 2; }
${MDSCHECK:-/verif/bin/mdscheck} -prop $p -tier quick -repo $t -evidence none 2>&1 | grep -v "^KNOWN-FINDING" | cut -c1-400
rm -rf $t
