#!/usr/bin/env python3
# usage: tools/mark_seed.py <seed-name> caught <expect-substring> <strengthened-note>
#        tools/mark_seed.py <seed-name> missed <why_missed>
import json, sys
n, kind = sys.argv[1], sys.argv[2]
p = f'/verif/seeded/{n}/meta.json'
m = json.load(open(p))
if kind == 'caught':
    m['expect_caught'] = True
    m['expect'] = sys.argv[3]
    if len(sys.argv) > 4 and sys.argv[4]:
        m['strengthened'] = sys.argv[4]
    m.pop('why_missed', None)
else:
    m['expect_caught'] = False
    m['why_missed'] = sys.argv[3]
json.dump(m, open(p, 'w'), indent=1, ensure_ascii=False)
