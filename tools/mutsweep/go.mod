module mutsweep

go 1.23
