#!/bin/bash
# usage: tools/mutsweep/try.sh <survivor-id> <prop>... — apply a stored sweep survivor to a scratch copy and run quick checks
id=$(printf "%04d" $1); shift
t=$(mktemp -d /tmp/muttry.XXXXXX); rsync -a --exclude .git /repo/ $t/
(cd $t && patch -p1 -s < /verif/mutsweep/${SET:-survivors}/$id.diff) || { echo "PATCH DOES NOT APPLY"; rm -rf $t; exit 2; }
for p in "$@"; do /verif/bin/mdscheck -prop $p -tier quick -repo $t -evidence none 2>&1 | grep -v "^KNOWN-FINDING" | cut -c1-${W:-300}; done
rm -rf $t
