#!/usr/bin/env python3
"""Second stage of the mutation sweep: run the quick checks of the properties anchored in the mutated package
against every suite-surviving mutant and record which obligations report it.
usage: judge.py <survivors_dir> <out.json>"""
import json, os, sys, glob, subprocess, tempfile, shutil
from concurrent.futures import ThreadPoolExecutor
PROPS = {'stree': ['C01','C02','C03','C04'], 'omap': ['C04'], 'heapq': ['C05','C06','C08'], 'queue': ['C07'],
         'cache': ['C08','C09'], 'mlink': ['C10'], 'stack': ['C10'], 'ring': ['C10'],
         'slice': ['C11','C12','C17','C07','C13'], 'mdiff': ['C13','C14'], 'shell': ['C15','C16'],
         'mapset': ['C18','C19'], 'distinct': ['C19'], 'mbits': ['C20'], 'mstr': ['C20']}
src, out = sys.argv[1], sys.argv[2]
def judge(jf):
    m = json.load(open(jf))
    pkg = m['file'].split('/')[0]
    props = PROPS.get(pkg)
    if not props:
        return None
    t = tempfile.mkdtemp(prefix='mutjudge-', dir='/tmp')
    try:
        subprocess.run(['rsync','-a','--exclude','.git','/repo/',t+'/'],check=True)
        r = subprocess.run(['patch','-p1','-s','-f','-d',t,'-i',jf[:-5]+'.diff'],capture_output=True,text=True)
        if r.returncode != 0:
            return dict(m, error='patch')
        rep = {}
        for p in props:
            r = subprocess.run(['/verif/bin/mdscheck','-prop',p,'-tier','quick','-repo',t,'-evidence','none'],capture_output=True,text=True,cwd='/verif')
            lines = [l for l in r.stdout.splitlines() if '[' in l and ']' in l and not l.startswith('KNOWN-FINDING')]
            if r.returncode != 0:
                rep[p] = lines[:4]
        return dict(m, flagged=rep)
    finally:
        shutil.rmtree(t, ignore_errors=True)
files = sorted(glob.glob(os.path.join(src,'*.json')))
files = [f for f in files if not f.endswith('stats.json')]
with ThreadPoolExecutor(8) as ex:
    res = [r for r in ex.map(judge, files) if r]
json.dump(res, open(out,'w'), indent=1)
fl = sum(1 for r in res if r.get('flagged'))
print(len(res), 'survivors in property packages;', fl, 'reported by a check')
