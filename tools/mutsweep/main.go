// mutsweep: a mechanical mutation sweep over the non-test sources of /repo, used to sample (a) how many
// suite-surviving one-token mutants the static checks report and (b) whether they report behaviour-preserving
// (equivalent) mutants.  It is an experiment harness, not part of any registered check.
//
//	go run . -list                      print the mutants (id, file, line, operator)
//	go run . -run -out DIR -workers N   apply each mutant to a scratch copy, build and run the suite;
//	                                    survivors are written to DIR/<id>.diff with DIR/<id>.json
//
// Operators: relational (< <= > >= == !=) swapped to a neighbour, && <-> ||, + <-> -, integer literal +1,
// `!x` -> `x`, deletion of an expression / assignment / inc-dec statement, `break` <-> `continue`.
package main

import (
	"bytes"
	"encoding/json"
	"flag"
	"fmt"
	"go/ast"
	"go/parser"
	"go/token"
	"os"
	"os/exec"
	"path/filepath"
	"sort"
	"strings"
	"sync"
	"time"
)

type mutant struct {
	ID   int    `json:"id"`
	File string `json:"file"`
	Line int    `json:"line"`
	Op   string `json:"op"`
	off  int
	end  int
	repl string
}

var pairs = flag.Bool("pairs", false, "second operator set: sibling names swapped (left/right, LStart/RStart, prev/next, X/Y, …) and two-argument calls with their arguments exchanged")

var swapStmts = flag.Bool("swap", false, "third operator set: two adjacent simple statements exchanged")

var sibling = map[string]string{}

func init() {
	for _, p := range [][2]string{{"left", "right"}, {"Left", "Right"}, {"LStart", "RStart"}, {"LEnd", "REnd"}, {"prev", "next"}, {"X", "Y"},
		{"lcur", "rcur"}, {"lend", "rend"}, {"lpos", "rpos"}, {"lhs", "rhs"}, {"as", "bs"}, {"lo", "hi"}, {"llo", "rlo"}, {"lhi", "rhi"},
		{"pre", "post"}, {"first", "last"}, {"start", "end"}, {"min", "max"}, {"Min", "Max"}, {"Next", "Prev"}, {"HasNext", "HasPrev"},
		{"OpDrop", "OpCopy"}, {"addl", "addr"}, {"pushUp", "pushDown"}, {"size", "max"}, {"head", "n"}, {"i", "j"}, {"p", "q"}, {"a", "b"}} {
		sibling[p[0]], sibling[p[1]] = p[1], p[0]
	}
}

func collect(repo string) []mutant {
	var out []mutant
	var files []string
	filepath.Walk(repo, func(p string, info os.FileInfo, err error) error {
		if err != nil {
			return nil
		}
		if info.IsDir() && (info.Name() == ".git" || info.Name() == "internal" || info.Name() == "testdata") {
			return filepath.SkipDir
		}
		if strings.HasSuffix(p, ".go") && !strings.HasSuffix(p, "_test.go") {
			files = append(files, p)
		}
		return nil
	})
	sort.Strings(files)
	for _, f := range files {
		fset := token.NewFileSet()
		src, _ := os.ReadFile(f)
		af, err := parser.ParseFile(fset, f, src, 0)
		if err != nil {
			continue
		}
		rel, _ := filepath.Rel(repo, f)
		add := func(pos, end token.Pos, repl, op string) {
			p := fset.Position(pos)
			out = append(out, mutant{File: rel, Line: p.Line, Op: op, off: p.Offset, end: fset.Position(end).Offset, repl: repl})
		}
		ast.Inspect(af, func(n ast.Node) bool {
			switch x := n.(type) {
			case *ast.BinaryExpr:
				if *pairs || *swapStmts {
					return true
				}
				swaps := map[token.Token][]string{
					token.LSS: {"<="}, token.LEQ: {"<"}, token.GTR: {">="}, token.GEQ: {">"},
					token.EQL: {"!="}, token.NEQ: {"=="}, token.LAND: {"||"}, token.LOR: {"&&"},
					token.ADD: {"-"}, token.SUB: {"+"},
				}
				for _, r := range swaps[x.Op] {
					add(x.OpPos, x.OpPos+token.Pos(len(x.Op.String())), r, x.Op.String()+"→"+r)
				}
			case *ast.BasicLit:
				if *pairs || *swapStmts {
					return true
				}
				if x.Kind == token.INT && len(x.Value) < 4 && !strings.HasPrefix(x.Value, "0x") {
					var v int
					fmt.Sscanf(x.Value, "%d", &v)
					add(x.Pos(), x.End(), fmt.Sprint(v+1), x.Value+"→"+fmt.Sprint(v+1))
				}
			case *ast.UnaryExpr:
				if !*pairs && !*swapStmts && x.Op == token.NOT {
					add(x.OpPos, x.OpPos+1, "", "drop !")
				}
			case *ast.BranchStmt:
				if *pairs || *swapStmts {
					return true
				}
				if x.Label == nil && x.Tok == token.BREAK {
					add(x.Pos(), x.End(), "continue", "break→continue")
				}
				if x.Label == nil && x.Tok == token.CONTINUE {
					add(x.Pos(), x.End(), "break", "continue→break")
				}
			case *ast.Ident:
				if *pairs {
					if o, ok := sibling[x.Name]; ok && x.Obj == nil || ok && x.Obj != nil && x.Obj.Kind == ast.Var {
						add(x.Pos(), x.End(), o, x.Name+"→"+o)
					}
				}
			case *ast.CallExpr:
				if *pairs && len(x.Args) == 2 {
					simple := func(e ast.Expr) bool {
						switch e.(type) {
						case *ast.Ident, *ast.SelectorExpr:
							return true
						}
						return false
					}
					if simple(x.Args[0]) && simple(x.Args[1]) {
						a := string(src[fset.Position(x.Args[0].Pos()).Offset:fset.Position(x.Args[0].End()).Offset])
						b := string(src[fset.Position(x.Args[1].Pos()).Offset:fset.Position(x.Args[1].End()).Offset])
						if a != b {
							add(x.Args[0].Pos(), x.Args[1].End(), b+", "+a, "swap args ("+a+", "+b+")")
						}
					}
				}
			case *ast.BlockStmt:
				if *swapStmts {
					simple := func(st ast.Stmt) bool {
						switch y := st.(type) {
						case *ast.ExprStmt, *ast.IncDecStmt:
							return true
						case *ast.AssignStmt:
							return y.Tok != token.DEFINE
						}
						return false
					}
					for i := 0; i+1 < len(x.List); i++ {
						a, b := x.List[i], x.List[i+1]
						if simple(a) && simple(b) {
							ta := string(src[fset.Position(a.Pos()).Offset:fset.Position(a.End()).Offset])
							tb := string(src[fset.Position(b.Pos()).Offset:fset.Position(b.End()).Offset])
							if ta != tb {
								add(a.Pos(), b.End(), tb+"\n"+ta, "swap statements")
							}
						}
					}
					return true
				}
				for _, st := range x.List {
					if *pairs {
						break
					}
					switch st.(type) {
					case *ast.ExprStmt, *ast.IncDecStmt:
						add(st.Pos(), st.End(), "", "delete statement")
					case *ast.AssignStmt:
						if st.(*ast.AssignStmt).Tok != token.DEFINE {
							add(st.Pos(), st.End(), "", "delete assignment")
						}
					}
				}
			}
			return true
		})
	}
	for i := range out {
		out[i].ID = i + 1
	}
	return out
}

func run(dir string, timeout time.Duration, name string, args ...string) (int, string) {
	cmd := exec.Command(name, args...)
	cmd.Dir = dir
	cmd.Env = append(os.Environ(), "GOFLAGS=-mod=mod", "GOPROXY=off", "GOSUMDB=off", "GOTOOLCHAIN=local")
	var buf bytes.Buffer
	cmd.Stdout, cmd.Stderr = &buf, &buf
	if err := cmd.Start(); err != nil {
		return 125, err.Error()
	}
	done := make(chan error, 1)
	go func() { done <- cmd.Wait() }()
	select {
	case err := <-done:
		if err != nil {
			return 1, buf.String()
		}
		return 0, buf.String()
	case <-time.After(timeout):
		cmd.Process.Kill()
		return 124, "timeout"
	}
}

func main() {
	repo := flag.String("repo", "/repo", "repository")
	list := flag.Bool("list", false, "list mutants")
	doRun := flag.Bool("run", false, "run the sweep")
	outDir := flag.String("out", "/tmp/mutsweep-out", "output directory for survivors")
	workers := flag.Int("workers", 12, "parallel workers")
	only := flag.String("only", "", "restrict to files with this path prefix")
	flag.Parse()
	ms := collect(*repo)
	if *only != "" {
		var f []mutant
		for _, m := range ms {
			if strings.HasPrefix(m.File, *only) {
				f = append(f, m)
			}
		}
		ms = f
	}
	if *list || !*doRun {
		for _, m := range ms {
			fmt.Printf("%d\t%s:%d\t%s\n", m.ID, m.File, m.Line, m.Op)
		}
		fmt.Fprintf(os.Stderr, "%d mutants\n", len(ms))
		return
	}
	os.MkdirAll(*outDir, 0o755)
	jobs := make(chan mutant)
	var mu sync.Mutex
	stats := map[string]int{}
	var wg sync.WaitGroup
	for w := 0; w < *workers; w++ {
		wg.Add(1)
		go func(w int) {
			defer wg.Done()
			dir, _ := os.MkdirTemp("", "mutsweep-w")
			defer os.RemoveAll(dir)
			run("/", time.Minute, "rsync", "-a", "--exclude", ".git", *repo+"/", dir+"/")
			for m := range jobs {
				p := filepath.Join(dir, m.File)
				orig, _ := os.ReadFile(p)
				mut := append(append(append([]byte{}, orig[:m.off]...), []byte(m.repl)...), orig[m.end:]...)
				os.WriteFile(p, mut, 0o644)
				verdict := "survived"
				if rc, _ := run(dir, 2*time.Minute, "go", "build", "./..."); rc != 0 {
					verdict = "no-build"
				} else if rc, _ := run(dir, 3*time.Minute, "go", "vet", "./"+filepath.Dir(m.File)); rc != 0 {
					verdict = "no-build" // unused variables in tests etc.
				} else if rc, _ := run(dir, 4*time.Minute, "go", "test", "-vet=off", "./..."); rc != 0 {
					verdict = "killed"
					if rc == 124 {
						verdict = "killed-timeout"
					}
				}
				if verdict == "survived" {
					origP := p + ".orig"
					os.WriteFile(origP, orig, 0o644)
					_, d := run(dir, time.Minute, "diff", "-u", "--label", "a/"+m.File, "--label", "b/"+m.File, m.File+".orig", m.File)
					os.Remove(origP)
					os.WriteFile(filepath.Join(*outDir, fmt.Sprintf("%04d.diff", m.ID)), []byte(d), 0o644)
					js, _ := json.Marshal(m)
					os.WriteFile(filepath.Join(*outDir, fmt.Sprintf("%04d.json", m.ID)), js, 0o644)
				}
				os.WriteFile(p, orig, 0o644)
				mu.Lock()
				stats[verdict]++
				n := 0
				for _, v := range stats {
					n += v
				}
				if n%50 == 0 {
					fmt.Fprintf(os.Stderr, "%d/%d %v\n", n, len(ms), stats)
				}
				mu.Unlock()
			}
		}(w)
	}
	for _, m := range ms {
		jobs <- m
	}
	close(jobs)
	wg.Wait()
	js, _ := json.Marshal(stats)
	os.WriteFile(filepath.Join(*outDir, "stats.json"), js, 0o644)
	fmt.Println(string(js))
}
